"""
Input zoo: seedable generators of tree sequences and input transformations.
Every generator returns (ts, recipe) where recipe is a small JSON-able description.
None of this uses tsdate.
"""
import hashlib
import itertools
import json

import msprime
import numpy as np
import tskit

NULL = tskit.NULL


def ts_sig(ts, *extra):
    h = hashlib.sha256()
    for a in (ts.edges_parent, ts.edges_child, ts.edges_left, ts.edges_right,
              ts.mutations_node, ts.mutations_site, ts.nodes_flags):
        h.update(np.ascontiguousarray(a).tobytes())
    h.update(repr(extra).encode())
    return h.hexdigest()[:14]


def _seed(rng):
    return int(rng.integers(1, 2**31 - 1))


def loguniform(rng, lo, hi):
    return float(np.exp(rng.uniform(np.log(lo), np.log(hi))))


# ------------------------------------------------------------------ simulations


def sim(rng, n=None, L=None, rec=None, Ne=None, mu=None, ploidy=None, discrete=True,
        mut_per_edge=None, min_mut=1, samples=None):
    """msprime ancestry + mutations. `mu` chosen so that expected mutations per edge
    is mut_per_edge (log-uniform 0.05..30 by default) unless given."""
    n = int(rng.integers(2, 13)) if n is None else n
    ploidy = int(rng.choice([1, 2])) if ploidy is None else ploidy
    L = float(rng.choice([1e2, 1e3, 1e4, 1e5])) if L is None else L
    Ne = loguniform(rng, 1e1, 1e5) if Ne is None else Ne
    if rec is None:
        # expected number of trees from ~1 to ~30
        rho = loguniform(rng, 0.05, 8.0) if rng.random() < 0.8 else 0.0
        rec = rho / (4 * Ne * L)
    sargs = dict(samples=n if samples is None else samples, ploidy=ploidy,
                 sequence_length=L, recombination_rate=rec, population_size=Ne,
                 random_seed=_seed(rng), discrete_genome=discrete)
    ts = msprime.sim_ancestry(**sargs)
    if mu is None:
        mpe = loguniform(rng, 0.05, 30.0) if mut_per_edge is None else mut_per_edge
        # mean edge length ~ 2Ne*ploidy-ish; span L
        tot = ts.segregating_sites(mode="branch", span_normalise=False)
        mu = mpe * ts.num_edges / max(tot, 1e-300) * (ts.sequence_length / L)
    for attempt in range(6):
        mts = msprime.sim_mutations(ts, rate=mu, random_seed=_seed(rng),
                                    discrete_genome=discrete)
        if mts.num_mutations >= min_mut:
            break
        mu *= 4
    recipe = dict(gen="sim", n=n, ploidy=ploidy, L=L, rec=rec, Ne=Ne, mu=mu,
                  discrete=discrete, trees=mts.num_trees, muts=mts.num_mutations)
    return mts, recipe


def sim_historical(rng, **kw):
    """samples at several non-zero times"""
    n0 = int(rng.integers(2, 7))
    Ne = kw.pop("Ne", None) or loguniform(rng, 1e1, 1e4)
    ploidy = kw.pop("ploidy", 1)
    sets = [msprime.SampleSet(n0, time=0, ploidy=ploidy)]
    for _ in range(int(rng.integers(1, 4))):
        sets.append(msprime.SampleSet(int(rng.integers(1, 4)),
                                      time=float(loguniform(rng, 0.01, 3.0) * Ne * 2),
                                      ploidy=ploidy))
    ts, r = sim(rng, samples=sets, Ne=Ne, ploidy=ploidy, **kw)
    r["gen"] = "sim_historical"
    return ts, r


def inferred(rng, **kw):
    """tsinfer on a simulation, then simplified (polytomies, no unary nodes)."""
    import tsinfer

    kw.setdefault("n", int(rng.integers(4, 12)))
    kw.setdefault("mut_per_edge", loguniform(rng, 1.0, 20.0))
    kw.setdefault("L", float(rng.choice([1e3, 1e4, 1e5])))
    ts, r = sim(rng, min_mut=4, **kw)
    sd = tsinfer.SampleData.from_tree_sequence(ts, use_sites_time=False)
    its = tsinfer.infer(sd, progress_monitor=False)
    its = its.simplify(keep_unary=False)
    r["gen"] = "inferred"
    r["trees"], r["muts"] = its.num_trees, its.num_mutations
    return its, r


# ------------------------------------------------------------------ hand-made trees


def _random_tree_parents(rng, n_leaves, shape):
    """Return (parent list over nodes 0..N-1, leaves 0..n-1, internal nodes after);
    internal nodes are numbered so that children have smaller ids than parents."""
    parent = {}
    if shape == "star":
        root = n_leaves
        for i in range(n_leaves):
            parent[i] = root
        return parent, n_leaves + 1
    if shape == "caterpillar":
        cur = 0
        nxt = n_leaves
        for i in range(1, n_leaves):
            parent[cur] = nxt
            parent[i] = nxt
            cur = nxt
            nxt += 1
        return parent, nxt
    # random agglomeration; polytomy: merge k>=2 at a time
    active = list(range(n_leaves))
    nxt = n_leaves
    while len(active) > 1:
        if shape == "polytomy":
            k = int(min(len(active), rng.integers(2, 6)))
        else:
            k = 2
        idx = rng.choice(len(active), size=k, replace=False)
        chosen = [active[j] for j in idx]
        for c in chosen:
            parent[c] = nxt
        active = [a for j, a in enumerate(active) if j not in set(idx.tolist())]
        active.append(nxt)
        nxt += 1
    return parent, nxt


def handmade_tree(rng, n_leaves=None, shape=None, L=None, muts=None, max_muts=20):
    """A single tree without msprime. Node times: leaves 0, internal = 1 + max(child)
    (uncalibrated). `muts`: dict child->count or None for random."""
    shape = shape or str(rng.choice(["binary", "polytomy", "caterpillar", "star"]))
    n_leaves = int(rng.integers(2, 9)) if n_leaves is None else n_leaves
    L = float(rng.choice([1.0, 10.0, 1e3, 1e5])) if L is None else L
    parent, N = _random_tree_parents(rng, n_leaves, shape)
    tables = tskit.TableCollection(sequence_length=L)
    times = np.zeros(N)
    for c in sorted(parent):
        p = parent[c]
        times[p] = max(times[p], times[c] + 1)
    for u in range(N):
        tables.nodes.add_row(flags=tskit.NODE_IS_SAMPLE if u < n_leaves else 0, time=times[u])
    for c, p in parent.items():
        tables.edges.add_row(0, L, p, c)
    counts = {}
    for c in parent:
        if muts is not None:
            k = int(muts.get(c, 0))
        else:
            k = int(rng.choice([0, 0, 1, 1, 2, 3, 5, max_muts]))
        counts[c] = k
    if sum(counts.values()) == 0:
        counts[next(iter(parent))] = 1
    tot = sum(counts.values())
    pos = np.sort(rng.uniform(0, L, size=tot))
    if len(np.unique(pos)) < tot:
        pos = np.linspace(0, L, tot, endpoint=False)
    order = [c for c, k in counts.items() for _ in range(k)]
    rng.shuffle(order)
    for x, c in zip(pos, order):
        s = tables.sites.add_row(position=float(x), ancestral_state="0")
        tables.mutations.add_row(site=s, node=c, derived_state="1")
    tables.sort()
    tables.build_index()
    tables.compute_mutation_parents()
    ts = tables.tree_sequence()
    return ts, dict(gen="handmade", shape=shape, n=n_leaves, L=L, muts=tot)


def star_forest(rng, n_parents=None, max_children=12, max_intervals=8, max_count=50, L=None):
    """Every edge joins a non-sample parent to a sample at time 0; several intervals.
    Each interval: each parent gets >=2 children among the samples (disjoint sets)."""
    P = int(rng.integers(1, 5)) if n_parents is None else n_parents
    K = int(rng.integers(1, max_intervals + 1))
    L = float(rng.choice([1.0, 100.0, 1e4])) if L is None else L
    nsamp = int(rng.integers(2 * P, max(2 * P + 1, min(P * max_children, 40)) + 1))
    tables = tskit.TableCollection(sequence_length=L)
    for _ in range(nsamp):
        tables.nodes.add_row(flags=tskit.NODE_IS_SAMPLE, time=0)
    parents = [tables.nodes.add_row(flags=0, time=1.0 + j) for j in range(P)]
    breaks = np.concatenate([[0.0], np.sort(rng.uniform(0, L, size=K - 1)), [L]])
    breaks = np.unique(breaks)
    edges = []  # (l, r, p, c)
    for l, r in zip(breaks[:-1], breaks[1:]):
        perm = rng.permutation(nsamp)
        # split samples into P groups each of size >= 2
        cuts = np.sort(rng.choice(np.arange(1, nsamp // 2), size=P - 1, replace=False)) * 2 \
            if P > 1 else np.array([], dtype=int)
        groups = np.split(perm, cuts)
        for p, g in zip(parents, groups):
            for c in g:
                edges.append((float(l), float(r), int(p), int(c)))
    # squash adjacent identical (p,c)
    edges.sort(key=lambda e: (e[2], e[3], e[0]))
    sq = []
    for e in edges:
        if sq and sq[-1][2] == e[2] and sq[-1][3] == e[3] and sq[-1][1] == e[0]:
            sq[-1] = (sq[-1][0], e[1], e[2], e[3])
        else:
            sq.append(e)
    for l, r, p, c in sq:
        tables.edges.add_row(l, r, p, c)
    # mutations on edges
    muts = []
    for l, r, p, c in sq:
        k = int(rng.choice([0, 0, 1, 2, 5, max_count]))
        for _ in range(k):
            muts.append((rng.uniform(l, r), c))
    if not muts:
        l, r, p, c = sq[0]
        muts.append(((l + r) / 2, c))
    muts.sort()
    lastx = -1.0
    for x, c in muts:
        if x <= lastx:
            x = np.nextafter(lastx, np.inf)
        lastx = x
        if x >= L:
            continue
        s = tables.sites.add_row(position=float(x), ancestral_state="0")
        tables.mutations.add_row(site=s, node=c, derived_state="1")
    tables.sort()
    tables.build_index()
    tables.compute_mutation_parents()
    ts = tables.tree_sequence()
    return ts, dict(gen="star_forest", parents=P, intervals=len(breaks) - 1, samples=nsamp,
                    L=L, muts=ts.num_mutations)


def all_tree_shapes(n_leaves):
    """All rooted unordered tree shapes (multifurcations allowed, no unary) with
    n_leaves leaves, as nested tuples; leaves are ()."""
    from functools import lru_cache

    @lru_cache(None)
    def shapes(n):
        if n == 1:
            return ((),)
        out = set()
        # partitions of n into >=2 parts, parts in non-increasing order
        def parts(rem, maxp, cur):
            if rem == 0:
                if len(cur) >= 2:
                    yield tuple(cur)
                return
            for p in range(min(rem, maxp), 0, -1):
                yield from parts(rem - p, p, cur + [p])
        for pt in parts(n, n - 1, []):
            choices = [shapes(p) for p in pt]
            for combo in itertools.product(*choices):
                out.add(tuple(sorted(combo, key=repr)))
        return tuple(sorted(out, key=repr))

    return shapes(n_leaves)


def tree_from_shape(shape, L=1.0, muts_per_edge=None, rng=None):
    """Build a single-tree ts from a nested-tuple shape. muts_per_edge: list of counts in
    edge-creation order (child order = postorder) or None (random)."""
    tables = tskit.TableCollection(sequence_length=L)
    edges = []
    leaves = []
    internal = []

    def count_leaves(s):
        return 1 if s == () else sum(count_leaves(c) for c in s)

    nl = count_leaves(shape)
    for _ in range(nl):
        tables.nodes.add_row(flags=tskit.NODE_IS_SAMPLE, time=0)
    next_leaf = [0]

    def build(s):
        if s == ():
            u = next_leaf[0]
            next_leaf[0] += 1
            return u, 0.0
        kids = [build(c) for c in s]
        t = max(k[1] for k in kids) + 1.0
        u = tables.nodes.add_row(flags=0, time=t)
        for k, _ in kids:
            edges.append((u, k))
        return u, t

    build(shape)
    for p, c in edges:
        tables.edges.add_row(0, L, p, c)
    ne = len(edges)
    if muts_per_edge is None:
        muts_per_edge = [int(rng.choice([0, 1, 2, 5])) for _ in range(ne)]
    tot = int(sum(muts_per_edge))
    pos = (np.arange(tot) + 0.5) / max(tot, 1) * L
    k = 0
    for (p, c), m in zip(edges, muts_per_edge):
        for _ in range(int(m)):
            s = tables.sites.add_row(position=float(pos[k]), ancestral_state="0")
            tables.mutations.add_row(site=s, node=c, derived_state="1")
            k += 1
    tables.sort()
    tables.build_index()
    tables.compute_mutation_parents()
    return tables.tree_sequence(), edges


# ------------------------------------------------------------------ structural variants


def with_missing(ts, rng, frac=0.3):
    """Isolate some samples over random intervals (cut leaf edges), then simplify so
    that no unary nodes remain. Mutations on removed edge pieces are dropped."""
    tables = ts.dump_tables()
    L = ts.sequence_length
    samples = set(ts.samples().tolist())
    new = []
    cut_any = False
    cuts = {}
    for e in ts.edges():
        if e.child in samples and rng.random() < frac and e.right - e.left > 0:
            a, b = np.sort(rng.uniform(e.left, e.right, size=2))
            if ts.discrete_genome:
                a, b = np.floor(a), np.ceil(b)
            a, b = max(a, e.left), min(b, e.right)
            if b > a:
                cut_any = True
                cuts.setdefault(e.child, []).append((a, b))
                if a > e.left:
                    new.append((e.left, a, e.parent, e.child))
                if b < e.right:
                    new.append((b, e.right, e.parent, e.child))
                continue
        new.append((e.left, e.right, e.parent, e.child))
    tables.edges.clear()
    for l, r, p, c in new:
        tables.edges.add_row(l, r, p, c)
    # drop mutations sitting on removed pieces
    keep = np.ones(ts.num_mutations, dtype=bool)
    pos = ts.sites_position[ts.mutations_site]
    for m in range(ts.num_mutations):
        for a, b in cuts.get(int(ts.mutations_node[m]), ()):
            if a <= pos[m] < b:
                keep[m] = False
    tables.mutations.keep_rows(keep)
    tables.sort()
    tables.build_index()
    tables.compute_mutation_parents()
    out = tables.tree_sequence().simplify(keep_unary=False, filter_sites=False)
    return out, cut_any


def flag_internal_sample(ts, rng, k=1):
    """Mark k internal nodes (with >=2 children everywhere they appear) as samples, keeping
    their time: a sample that has children ('internal sample')."""
    cand = np.setdiff1d(np.unique(ts.edges_parent), ts.samples())
    if len(cand) == 0:
        return ts, []
    pick = rng.choice(cand, size=min(k, len(cand)), replace=False)
    tables = ts.dump_tables()
    fl = tables.nodes.flags
    fl[pick] |= tskit.NODE_IS_SAMPLE
    tables.nodes.flags = fl
    return tables.tree_sequence(), [int(x) for x in pick]


def add_root_mutations(ts, rng, k=2):
    """add mutations above roots (on root nodes) at new sites"""
    tables = ts.dump_tables()
    existing = set(ts.sites_position.tolist())
    added = 0
    for _ in range(k * 5):
        if added >= k:
            break
        x = float(rng.uniform(0, ts.sequence_length))
        if ts.discrete_genome:
            x = float(np.floor(x))
        if x in existing:
            continue
        tree = ts.at(x)
        roots = [r for r in tree.roots if tree.num_children(r) > 0]
        if not roots:
            continue
        existing.add(x)
        s = tables.sites.add_row(position=x, ancestral_state="A")
        tables.mutations.add_row(site=s, node=int(rng.choice(roots)), derived_state="T")
        added += 1
    tables.sort()
    tables.build_index()
    tables.compute_mutation_parents()
    return tables.tree_sequence(), added


def add_recurrent_mutations(ts, rng, k=3):
    """extra mutations at existing sites (several mutations per site; back mutations)"""
    if ts.num_sites == 0:
        return ts, 0
    tables = ts.dump_tables()
    added = 0
    for _ in range(k):
        s = int(rng.integers(0, ts.num_sites))
        x = ts.sites_position[s]
        tree = ts.at(x)
        nodes = [u for u in tree.nodes() if tree.parent(u) != NULL]
        if not nodes:
            continue
        tables.mutations.add_row(site=s, node=int(rng.choice(nodes)),
                                 derived_state=str(rng.choice(["0", "1", "G"])))
        added += 1
    tables.mutations.time = np.full(tables.mutations.num_rows, tskit.UNKNOWN_TIME)
    tables.sort()
    tables.build_index()
    tables.compute_mutation_parents()
    return tables.tree_sequence(), added


def drop_singletons(ts):
    """remove every mutation that sits directly above a sample node (and sites left empty)"""
    t = ts.dump_tables()
    is_s = (ts.nodes_flags & tskit.NODE_IS_SAMPLE) > 0
    keep = ~is_s[ts.mutations_node]
    t.mutations.keep_rows(keep)
    t.mutations.time = np.full(t.mutations.num_rows, tskit.UNKNOWN_TIME)
    t.sort()
    t.build_index()
    t.compute_mutation_parents()
    return t.tree_sequence()


def strip_mutation_times(ts):
    tables = ts.dump_tables()
    tables.mutations.time = np.full(tables.mutations.num_rows, tskit.UNKNOWN_TIME)
    return tables.tree_sequence()


def extra_flags(ts, rng, p_hist=0.7, p_any=0.15):
    """Set node flag bits that tskit does not interpret: tsinfer/tsdate's historical-sample
    bit (1<<20) on non-contemporary samples, and arbitrary high bits on random nodes."""
    tables = ts.dump_tables()
    fl = tables.nodes.flags.copy()
    t = tables.nodes.time
    n_set = 0
    for u in range(len(fl)):
        if (fl[u] & tskit.NODE_IS_SAMPLE) and t[u] > 0 and rng.random() < p_hist:
            fl[u] |= np.uint32(1 << 20)
            n_set += 1
        if rng.random() < p_any:
            fl[u] |= np.uint32(1 << int(rng.integers(16, 31)))
            n_set += 1
    tables.nodes.flags = fl
    return tables.tree_sequence(), n_set


# ------------------------------------------------------------------ transformations


def rescale_time(ts, c):
    tables = ts.dump_tables()
    tables.nodes.time = tables.nodes.time * c
    mt = tables.mutations.time
    known = ~tskit.is_unknown_time(mt)
    mt[known] = mt[known] * c
    tables.mutations.time = mt
    return tables.tree_sequence()


def rescale_genome(ts, c):
    tables = ts.dump_tables()
    tables.sequence_length = ts.sequence_length * c
    tables.edges.left = tables.edges.left * c
    tables.edges.right = tables.edges.right * c
    tables.sites.position = tables.sites.position * c
    if tables.migrations.num_rows:
        tables.migrations.left = tables.migrations.left * c
        tables.migrations.right = tables.migrations.right * c
    return tables.tree_sequence()


def renumber(ts, rng, perm=None):
    """Permute non-sample node ids. Returns (ts2, newid) with newid[old] = new."""
    N = ts.num_nodes
    is_s = (ts.nodes_flags & tskit.NODE_IS_SAMPLE) > 0
    nons = np.flatnonzero(~is_s)
    if perm is None:
        perm = rng.permutation(len(nons))
    newid = np.arange(N)
    newid[nons] = nons[perm]
    order = np.argsort(newid)  # order[new] = old
    tables = ts.dump_tables()
    tables.subset(order.astype(np.int32), record_provenance=False,
                  reorder_populations=False, remove_unreferenced=False)
    tables.sort()
    tables.build_index()
    tables.compute_mutation_parents()
    return tables.tree_sequence(), newid


def renumber_all(ts, rng):
    """Permute ALL node ids (samples too: valid input whose samples are not ids 0..n-1).
    Returns (ts2, newid) with newid[old] = new."""
    N = ts.num_nodes
    newid = rng.permutation(N)
    order = np.argsort(newid)
    tables = ts.dump_tables()
    tables.subset(order.astype(np.int32), record_provenance=False,
                  reorder_populations=False, remove_unreferenced=False)
    tables.sort()
    tables.build_index()
    tables.compute_mutation_parents()
    return tables.tree_sequence(), newid


def retime(ts, rng, mode=None):
    """Change non-sample node times arbitrarily but consistently with the DAG order."""
    mode = mode or str(rng.choice(["rank", "scale", "jitter", "depth"]))
    t = ts.nodes_time.copy()
    is_s = (ts.nodes_flags & tskit.NODE_IS_SAMPLE) > 0
    # topological (children before parents) via time order
    order = np.argsort(ts.nodes_time, kind="stable")
    kids = {}
    for p, c in zip(ts.edges_parent, ts.edges_child):
        kids.setdefault(int(p), set()).add(int(c))
    new = t.copy()
    for u in order:
        u = int(u)
        if is_s[u]:
            continue
        base = max((new[c] for c in kids.get(u, ())), default=0.0)
        if mode == "rank" or mode == "depth":
            inc = 1.0 if mode == "depth" else float(rng.uniform(0.1, 2.0))
        elif mode == "scale":
            inc = max(t[u] - max((t[c] for c in kids.get(u, ())), default=0.0), 1e-9) * 1000.0
        else:
            inc = float(loguniform(rng, 1e-3, 1e3))
        new[u] = base + inc
    tables = ts.dump_tables()
    tables.nodes.time = new
    tables.mutations.time = np.full(tables.mutations.num_rows, tskit.UNKNOWN_TIME)
    tables.sort()
    tables.build_index()
    tables.compute_mutation_parents()
    # sort may reorder edges (parents by time): ids of nodes unchanged
    return tables.tree_sequence(), mode


def rephase(ts, rng, p=0.5):
    """Move singletons on diploid contemporary individuals' nodes to the individual's
    other node with probability p."""
    mn = ts.mutations_node.copy()
    moved = 0
    for m in range(ts.num_mutations):
        u = mn[m]
        ind = ts.nodes_individual[u]
        if ind == NULL:
            continue
        nodes = ts.individual(ind).nodes
        if len(nodes) != 2 or np.any(ts.nodes_time[nodes] != 0):
            continue
        if not (ts.nodes_flags[u] & tskit.NODE_IS_SAMPLE):
            continue
        if rng.random() < p:
            mn[m] = nodes[0] if nodes[1] == u else nodes[1]
            moved += 1
    tables = ts.dump_tables()
    tables.mutations.node = mn
    tables.mutations.time = np.full(tables.mutations.num_rows, tskit.UNKNOWN_TIME)
    tables.sort()
    tables.build_index()
    tables.compute_mutation_parents()
    return tables.tree_sequence(), moved


# ------------------------------------------------------------------ decoration

PERMISSIVE = {"codec": "json"}
RESTRICTIVE = {"codec": "json", "type": "object",
               "properties": {"name": {"type": "string"}},
               "additionalProperties": False}
REQUIRED_FOREIGN = {"codec": "json", "type": "object",
                    "properties": {"name": {"type": "string"}}, "required": ["name"]}
STRUCT_WITH = {"codec": "struct", "type": "object",
               "properties": {"mn": {"type": "number", "binaryFormat": "d", "default": 0},
                              "vr": {"type": "number", "binaryFormat": "d", "default": 0},
                              "tag": {"type": "integer", "binaryFormat": "i", "default": 7}}}
STRUCT_WITHOUT = {"codec": "struct", "type": "object",
                  "properties": {"tag": {"type": "integer", "binaryFormat": "i"}}}

META_KINDS = ["none", "raw_bytes", "permissive", "restrictive", "required_foreign",
              "struct_with", "struct_without", "schema_empty", "tsdate_default"]


def set_table_metadata(table, kind, rng):
    n = table.num_rows
    table.drop_metadata()
    table.metadata_schema = tskit.MetadataSchema(None)
    if kind == "none":
        return
    if kind == "raw_bytes":
        table.packset_metadata([bytes(rng.integers(97, 123, size=int(rng.integers(1, 6)),
                                                   dtype=np.uint8)) for _ in range(n)])
        return
    if kind == "permissive":
        table.metadata_schema = tskit.MetadataSchema(PERMISSIVE)
        sch = table.metadata_schema
        table.packset_metadata([sch.validate_and_encode_row(
            {"name": f"n{j}", "x": int(rng.integers(0, 99)), "mn": -1.0}) for j in range(n)])
        return
    if kind == "restrictive":
        table.metadata_schema = tskit.MetadataSchema(RESTRICTIVE)
        sch = table.metadata_schema
        table.packset_metadata([sch.validate_and_encode_row({"name": f"r{j}"}) for j in range(n)])
        return
    if kind == "required_foreign":
        table.metadata_schema = tskit.MetadataSchema(REQUIRED_FOREIGN)
        sch = table.metadata_schema
        table.packset_metadata([sch.validate_and_encode_row({"name": f"q{j}", "k": j}) for j in range(n)])
        return
    if kind == "struct_with":
        table.metadata_schema = tskit.MetadataSchema(STRUCT_WITH)
        sch = table.metadata_schema
        table.packset_metadata([sch.validate_and_encode_row(
            {"mn": 1.5, "vr": 2.5, "tag": int(j)}) for j in range(n)])
        return
    if kind == "struct_without":
        table.metadata_schema = tskit.MetadataSchema(STRUCT_WITHOUT)
        sch = table.metadata_schema
        table.packset_metadata([sch.validate_and_encode_row({"tag": int(j)}) for j in range(n)])
        return
    if kind == "tsdate_default":
        # the table was dated before (tsdate's own schema) and annotated afterwards; rows written by
        # split_disjoint_nodes ("unsplit_node_id") look the same
        import tsdate.schemas as _sch
        is_mut = hasattr(table, "derived_state")
        table.metadata_schema = _sch.default_mutation_schema if is_mut else _sch.default_node_schema
        sch = table.metadata_schema
        table.packset_metadata([sch.validate_and_encode_row(
            {"mn": 1.0 + j, "vr": 0.5, "label": f"a{j}", "qual": int(rng.integers(0, 999))} if j % 3 else
            {"label": f"a{j}"}) for j in range(n)])
        return
    if kind == "schema_empty":
        table.metadata_schema = tskit.MetadataSchema(PERMISSIVE)
        return
    raise ValueError(kind)


def decorate(ts, rng, node_kind=None, mut_kind=None, individuals=None, populations=True,
             provenance=True, states=True, time_units=None, site_md=True, edge_md=True):
    """Attach data the dating model should ignore (metadata, individuals, populations,
    provenance, allele strings...)."""
    tables = ts.dump_tables()
    node_kind = node_kind or str(rng.choice(META_KINDS))
    mut_kind = mut_kind or str(rng.choice(META_KINDS))
    info = dict(node_md=node_kind, mut_md=mut_kind)
    if populations:
        tables.populations.metadata_schema = tskit.MetadataSchema(PERMISSIVE)
        npop = int(rng.integers(1, 4))
        base = tables.populations.num_rows
        for j in range(npop):
            tables.populations.add_row(metadata={"name": f"pop{j}"})
        pop = tables.nodes.population
        pop[:] = base + rng.integers(0, npop, size=len(pop))
        tables.nodes.population = pop.astype(np.int32)
        info["pops"] = npop
    individuals = individuals if individuals is not None else str(
        rng.choice(["keep", "haploid", "mixed", "internal"]))
    if individuals != "keep":
        tables.individuals.clear()
        ind = np.full(ts.num_nodes, NULL, dtype=np.int32)
        samples = ts.samples()
        if individuals == "haploid":
            for s in samples:
                ind[s] = tables.individuals.add_row(flags=0)
        elif individuals == "mixed":
            ss = list(samples)
            rng.shuffle(ss)
            while ss:
                k = int(rng.choice([1, 2, 3]))
                grp, ss = ss[:k], ss[k:]
                j = tables.individuals.add_row(flags=int(rng.integers(0, 4)),
                                               location=rng.uniform(size=2))
                for s in grp:
                    ind[s] = j
        elif individuals == "internal":
            for s in samples:
                ind[s] = tables.individuals.add_row(flags=0)
            internal = np.setdiff1d(np.arange(ts.num_nodes), samples)
            if len(internal):
                j = tables.individuals.add_row(flags=1)
                ind[rng.choice(internal)] = j
        tables.nodes.individual = ind
    info["individuals"] = individuals
    set_table_metadata(tables.nodes, node_kind, rng)
    set_table_metadata(tables.mutations, mut_kind, rng)
    if site_md and tables.sites.num_rows:
        tables.sites.metadata_schema = tskit.MetadataSchema(PERMISSIVE)
        sch = tables.sites.metadata_schema
        tables.sites.packset_metadata([sch.validate_and_encode_row({"s": j})
                                       for j in range(tables.sites.num_rows)])
    if edge_md and tables.edges.num_rows:
        tables.edges.packset_metadata([bytes([65 + (j % 26)]) for j in range(tables.edges.num_rows)])
    if states and tables.sites.num_rows:
        tables.sites.packset_ancestral_state(
            [str(rng.choice(["A", "ACGT", "", "0"])) for _ in range(tables.sites.num_rows)])
        tables.mutations.packset_derived_state(
            [str(rng.choice(["T", "G", "1", "TTT", ""])) for _ in range(tables.mutations.num_rows)])
    if provenance:
        for j in range(int(rng.integers(0, 3))):
            tables.provenances.add_row(record=json.dumps({"software": {"name": f"tool{j}"}}),
                                       timestamp="2020-01-01T00:00:00")
    if time_units is None:
        time_units = str(rng.choice(["uncalibrated", "generations", "years", "unknown"]))
    tables.time_units = time_units
    tables.metadata_schema = tskit.MetadataSchema(PERMISSIVE)
    tables.metadata = {"top": "level"}
    return tables.tree_sequence(), info


def add_monomorphic_sites(ts, rng, k=3):
    tables = ts.dump_tables()
    existing = set(ts.sites_position.tolist())
    added = 0
    for _ in range(k * 4):
        if added >= k:
            break
        x = float(rng.uniform(0, ts.sequence_length))
        if ts.discrete_genome:
            x = float(np.floor(x))
        if x in existing:
            continue
        existing.add(x)
        tables.sites.add_row(position=x, ancestral_state="C")
        added += 1
    tables.sort()
    tables.build_index()
    tables.compute_mutation_parents()
    return tables.tree_sequence(), added


# ------------------------------------------------------------------ mixed bag


def valid_for_variational(ts):
    return ts.num_mutations > 0


def any_input(rng, kinds=None, contemporaneous=False, allow_inferred=True):
    """A random accepted-by-date() input. Returns (ts, recipe)."""
    kinds = kinds or ["sim", "sim", "sim", "handmade", "inferred", "historical",
                      "missing", "rootmut", "recurrent", "internal_sample"]
    if contemporaneous:
        kinds = [k for k in kinds if k not in ("historical", "internal_sample")]
    if not allow_inferred:
        kinds = [k for k in kinds if k != "inferred"]
    kind = str(rng.choice(kinds))
    ts, r = _any_input(rng, kind)
    if rng.random() < (0.6 if kind in ("historical", "internal_sample") else 0.25):
        ts, k = extra_flags(ts, rng)
        r["extra_flag_bits"] = k
    return ts, r


def _any_input(rng, kind):
    if kind == "sim":
        return sim(rng)
    if kind == "handmade":
        return handmade_tree(rng)
    if kind == "inferred":
        try:
            return inferred(rng)
        except Exception:
            return sim(rng)
    if kind == "historical":
        return sim_historical(rng)
    if kind == "missing":
        ts, r = sim(rng, n=int(rng.integers(4, 12)))
        ts2, cut = with_missing(ts, rng)
        if ts2.num_mutations == 0 or ts2.num_edges == 0:
            return ts, r
        r["gen"] = "missing"
        return ts2, r
    if kind == "rootmut":
        ts, r = sim(rng)
        ts, k = add_root_mutations(strip_mutation_times(ts), rng)
        r["gen"] = "rootmut"
        r["rootmuts"] = k
        return ts, r
    if kind == "recurrent":
        ts, r = sim(rng)
        ts, k = add_recurrent_mutations(ts, rng)
        r["gen"] = "recurrent"
        return ts, r
    if kind == "internal_sample":
        ts, r = sim(rng, n=int(rng.integers(3, 10)))
        ts, picked = flag_internal_sample(ts, rng, k=int(rng.integers(1, 3)))
        r["gen"] = "internal_sample"
        r["picked"] = picked
        return ts, r
    raise ValueError(kind)


def mirrored_blocks(rng, n=None):
    """Two copies of the same local trees side by side: block A on [0, L0) over samples 0..n-1 with one
    further sample isolated there, block B on [L0, 2 L0) over fresh internal nodes, the further sample
    joined above the old root.  Corresponding nodes of A and B have identical (samples below, span)
    records but live in trees with n and n+1 samples respectively."""
    n = int(rng.integers(3, 8)) if n is None else n
    L0 = float(rng.choice([20, 50, 100]))
    for _ in range(20):
        base = msprime.sim_ancestry(samples=n, ploidy=1, sequence_length=L0, population_size=100.0,
                                    recombination_rate=float(rng.choice([1.0, 3.0])) / (400.0 * L0),
                                    random_seed=_seed(rng), discrete_genome=True)
        if 2 <= base.num_trees <= 8:
            break
    t = tskit.TableCollection(2 * L0)
    for _ in range(n + 1):
        t.nodes.add_row(flags=tskit.NODE_IS_SAMPLE, time=0.0)
    extra = n
    amap, bmap = {}, {}
    for u in range(base.num_nodes):
        if base.nodes_flags[u] & tskit.NODE_IS_SAMPLE:
            amap[u] = bmap[u] = u
        else:
            amap[u] = t.nodes.add_row(flags=0, time=float(base.nodes_time[u]))
    for u in range(base.num_nodes):
        if not (base.nodes_flags[u] & tskit.NODE_IS_SAMPLE):
            bmap[u] = t.nodes.add_row(flags=0, time=float(base.nodes_time[u]))
    top = t.nodes.add_row(flags=0, time=float(base.nodes_time.max()) * 1.5 + 1.0)
    for e in base.edges():
        t.edges.add_row(e.left, e.right, amap[e.parent], amap[e.child])
        t.edges.add_row(e.left + L0, e.right + L0, bmap[e.parent], bmap[e.child])
    for tree in base.trees():
        t.edges.add_row(tree.interval.left + L0, tree.interval.right + L0, top, bmap[tree.root])
    t.edges.add_row(L0, 2 * L0, top, extra)
    t.sort()
    t.edges.squash()
    t.sort()
    t.build_index()
    ts = t.tree_sequence()
    # a few mutations so that every method accepts it
    mts = msprime.sim_mutations(ts, rate=5.0 / max(ts.segregating_sites(mode="branch", span_normalise=False), 1e-300),
                                random_seed=_seed(rng), discrete_genome=True)
    return mts, dict(gen="mirrored_blocks", n=n, L=2 * L0, trees=mts.num_trees, muts=mts.num_mutations, Ne=100.0,
                     mu=5.0 / max(ts.segregating_sites(mode="branch", span_normalise=False), 1e-300))


def unary_chain(rng):
    """Two trees; in one of them a chain of unary nodes hangs between a clade and a unary root that is a
    coalescent node in the other tree (the span tables then lend that node's spans to the chain: the
    second pass of SpansBySamples). Needs allow_unary=True."""
    n = int(rng.integers(4, 9))
    a = int(rng.integers(2, n - 1))            # clade of A in the coalescent tree
    b = int(rng.integers(1, n - a))            # samples joining at N
    rest = n - a - b                           # samples joining at the top node (may be 0)
    k = int(rng.integers(1, 4))                # unary-only nodes
    L = float(rng.choice([10.0, 1000.0, 1e5]))
    x = float(np.floor(L * rng.uniform(0.2, 0.8)))
    scale = float(10 ** rng.uniform(0, 3))
    t = tskit.TableCollection(L)
    for _ in range(n):
        t.nodes.add_row(flags=tskit.NODE_IS_SAMPLE, time=0.0)
    A = t.nodes.add_row(time=1.0 * scale)
    U = [t.nodes.add_row(time=(1.0 + 0.5 * (j + 1)) * scale) for j in range(k)]
    N = t.nodes.add_row(time=(1.5 + 0.5 * k) * scale)
    top = t.nodes.add_row(time=(3.0 + 0.5 * k) * scale) if rest else None
    chain_left = bool(rng.integers(2))
    lo, hi = (0.0, x) if chain_left else (x, L)          # where the chain lives
    lo2, hi2 = (x, L) if chain_left else (0.0, x)        # where N coalesces
    for s in range(n):
        if s < a:
            t.edges.add_row(0.0, L, A, s)
        else:
            t.edges.add_row(lo, hi, A, s)
    prev = A
    for u in U + [N]:
        t.edges.add_row(lo, hi, u, prev)
        prev = u
    t.edges.add_row(lo2, hi2, N, A)
    for s in range(a, a + b):
        t.edges.add_row(lo2, hi2, N, s)
    if rest:
        t.edges.add_row(lo2, hi2, top, N)
        for s in range(a + b, n):
            t.edges.add_row(lo2, hi2, top, s)
    t.sort()
    t.build_index()
    ts = t.tree_sequence()
    area = ts.segregating_sites(mode="branch", span_normalise=False)
    mu = float(rng.choice([5.0, 30.0])) / max(area, 1e-300)
    mts = msprime.sim_mutations(ts, rate=mu, random_seed=_seed(rng), discrete_genome=False)
    return mts, dict(gen="unary_chain", n=n, L=L, Ne=scale, mu=mu, chain=k, trees=mts.num_trees, muts=mts.num_mutations)
