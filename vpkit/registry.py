"""Static table: property id -> module and engine (read by ./chk before anything heavy is imported)."""
CHECKS = {}


def _reg(pid, engine="jit"):
    CHECKS[pid] = {"module": f"vpkit.checks.{pid.lower()}", "engine": engine}

_reg("C01")
_reg("C02")
_reg("C03")
_reg("C04")
_reg("C05")
_reg("C06")
_reg("C07")
_reg("C08")
_reg("C09")
_reg("C10")
_reg("C13")
_reg("C11")
_reg("C12")
_reg("C38")
_reg("C14")
_reg("C15")
_reg("C16")
_reg("C17", "interp")
_reg("C27")
_reg("C19")
_reg("C24")
_reg("C26")
_reg("C20")
_reg("C21")
_reg("C23")
_reg("C25")
_reg("C22")
_reg("C18")
_reg("C29")
_reg("C28")
_reg("C30")
_reg("C31")
