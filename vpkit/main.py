"""Entry point exec'd by ./chk with the environment already prepared."""
import importlib
import json
import os
import sys
import warnings


def main(argv):
    warnings.filterwarnings("ignore")
    import logging

    logging.disable(logging.CRITICAL)
    from vpkit import engine
    from vpkit.registry import CHECKS

    cmd = argv[1]
    if cmd == "check":
        pid, tier = argv[2], argv[3]
        ctx = engine.Ctx(pid, tier)
    elif cmd == "replay":
        with open(argv[2]) as f:
            rp = json.load(f)
        pid, tier = rp["property"], rp.get("tier", "quick")
        ctx = engine.Ctx(pid, tier, seed=rp["seed"], replay_case=rp["case"])
    else:
        return 2
    repo = os.path.realpath(ctx.repo)
    import tsdate

    where = os.path.realpath(tsdate.__file__)
    if not where.startswith(repo + os.sep):
        print(f"INCONCLUSIVE property={pid}: tsdate imported from {where}, not from {repo}")
        return 2
    mod = importlib.import_module(CHECKS[pid]["module"])
    try:
        if hasattr(mod, "run"):
            agg = mod.run(ctx)
        else:
            agg = engine.standard_run(ctx, mod)
        code = engine.finish(ctx, mod, agg)
    finally:
        ctx.cleanup()
    sys.stdout.flush()
    return code


if __name__ == "__main__":
    rc = main(sys.argv)
    sys.stdout.flush()
    sys.stderr.flush()
    os._exit(rc)
