"""Run under NUMBA_DISABLE_JIT=1: real EP runs with recording wrappers on every
tsdate.approx.*_moments function (kernel-internal calls are late-bound in this engine).
Writes reservoir samples of (args, result) per function to the path given in argv[1]."""
import json
import sys
import warnings

warnings.filterwarnings("ignore")
import logging

logging.disable(logging.CRITICAL)
import numpy as np

import tsdate
from tsdate import approx
from vpkit import common, zoo

NAMES = ["moments", "rootward_moments", "leafward_moments", "unphased_moments", "twin_moments",
         "sideways_moments", "mutation_moments", "mutation_rootward_moments", "mutation_leafward_moments",
         "mutation_unphased_moments", "mutation_twin_moments", "mutation_sideways_moments",
         "mutation_edge_moments", "mutation_block_moments"]
CAP = 400
store = {n: [] for n in NAMES}
seen = {n: 0 for n in NAMES}
rng_res = np.random.default_rng(12345)


def wrap(name):
    fn = getattr(approx, name)

    def w(*args):
        out = fn(*args)
        seen[name] += 1
        item = ([float(a) for a in args], [float(o) for o in out])
        if len(store[name]) < CAP:
            store[name].append(item)
        else:
            j = int(rng_res.integers(0, seen[name]))
            if j < CAP:
                store[name][j] = item
        return out

    return w


for n in NAMES:
    setattr(approx, n, wrap(n))


def unphased_with_fixed_parent(rng):
    """a diploid individual whose leaves hang below a sample: sideways / block / edge updates"""
    ts, r = zoo.sim(rng, ploidy=2, n=int(rng.integers(2, 6)), mut_per_edge=6.0, L=1e3)
    # flag parents of some leaves as samples
    leaf_parents = np.unique(ts.edges_parent[np.isin(ts.edges_child, ts.samples())])
    t = ts.dump_tables()
    fl = t.nodes.flags
    pick = rng.choice(leaf_parents, size=max(1, len(leaf_parents) // 2), replace=False)
    fl[pick] |= 1
    t.nodes.flags = fl
    return t.tree_sequence(), r


def main(path, seed, nruns):
    rng = np.random.default_rng(seed)
    runs = 0
    for k in range(nruns):
        kind = k % 6
        try:
            if kind == 0:
                ts, r = zoo.sim(rng)
                kw = {}
            elif kind == 1:
                ts, r = zoo.sim_historical(rng)
                kw = {}
            elif kind == 2:
                ts, r = zoo.sim(rng, n=int(rng.integers(3, 9)))
                ts, _ = zoo.flag_internal_sample(ts, rng, k=2)
                kw = {}
            elif kind == 3:
                ts, r = zoo.sim(rng, ploidy=2, n=int(rng.integers(2, 6)), mut_per_edge=float(rng.choice([1.0, 8.0])))
                kw = {"singletons_phased": False}
            elif kind == 4:
                ts, r = unphased_with_fixed_parent(rng)
                kw = {"singletons_phased": False}
            else:
                ts, r = zoo.any_input(rng, allow_inferred=False)
                kw = {}
            scale = float(rng.choice([1e-3, 1.0, 1.0, 1e4]))
            tsdate.variational_gamma(ts, mutation_rate=common.default_mu(ts, r) / scale,
                                     max_iterations=int(rng.choice([3, 10, 25])), rescaling_intervals=0,
                                     max_shape=float(rng.choice([10.0, 1000.0])), **kw)
            runs += 1
        except Exception:
            pass
    with open(path, "w") as f:
        json.dump({"store": store, "seen": seen, "runs": runs}, f)
    print("C18HARVEST", json.dumps(seen))


if __name__ == "__main__":
    main(sys.argv[1], int(sys.argv[2]), int(sys.argv[3]))
