"""Run under NUMBA_DISABLE_JIT=1: real EP runs with recording wrappers on every
tsdate.approx.*_moments function (kernel-internal calls are late-bound in this engine).
Writes reservoir samples of (args, result) per function to the path given in argv[1]."""
import json
import sys
import warnings

warnings.filterwarnings("ignore")
import logging

logging.disable(logging.CRITICAL)
import numpy as np

import tsdate
from tsdate import approx
from vpkit import common, zoo

NAMES = ["moments", "rootward_moments", "leafward_moments", "unphased_moments", "twin_moments",
         "sideways_moments", "mutation_moments", "mutation_rootward_moments", "mutation_leafward_moments",
         "mutation_unphased_moments", "mutation_twin_moments", "mutation_sideways_moments",
         "mutation_edge_moments", "mutation_block_moments"]
CAP = 400
store = {n: [] for n in NAMES}
seen = {n: 0 for n in NAMES}
rng_res = np.random.default_rng(12345)
PAIR = ("moments", "unphased_moments", "mutation_moments", "mutation_unphased_moments")
# functions whose first argument is the age of a fixed node
FIXED = ("rootward_moments", "mutation_rootward_moments", "leafward_moments", "mutation_leafward_moments",
         "sideways_moments", "mutation_sideways_moments", "mutation_edge_moments", "mutation_block_moments")
special = {n: [] for n in PAIR + FIXED}
seen_special = {n: 0 for n in PAIR + FIXED}


def wrap(name):
    fn = getattr(approx, name)

    def w(*args):
        out = fn(*args)
        seen[name] += 1
        item = ([float(a) for a in args], [float(o) for o in out])
        if name in PAIR and len(special[name]) < 60:
            a_i, b_i, a_j, b_j, y, mu = item[0]
            t = mu + b_i
            if t > 0:
                z = (mu - b_j) / t if name in ("moments", "mutation_moments") else 1 - (mu + b_j) / t
                # hypergeometric argument close to its boundary 1, or hugely negative
                if abs(1 - z) < 1.2e-5 or z < -1e5:
                    special[name].append(item)
                    seen_special[name] += 1
        if name in FIXED and len(special[name]) < 40:
            # fixed ages far from 1 (the problem posed in very small or very large time units)
            t0 = item[0][0]
            if 0.0 < t0 < 1e-6 or t0 > 1e8:
                special[name].append(item)
                seen_special[name] += 1
        if len(store[name]) < CAP:
            store[name].append(item)
        else:
            j = int(rng_res.integers(0, seen[name]))
            if j < CAP:
                store[name][j] = item
        return out

    return w


for n in NAMES:
    setattr(approx, n, wrap(n))


def unphased_with_fixed_parent(rng):
    """a diploid individual whose leaves hang below a sample: sideways / block / edge updates"""
    ts, r = zoo.sim(rng, ploidy=2, n=int(rng.integers(2, 6)), mut_per_edge=6.0, L=1e3)
    # flag parents of some leaves as samples
    leaf_parents = np.unique(ts.edges_parent[np.isin(ts.edges_child, ts.samples())])
    t = ts.dump_tables()
    fl = t.nodes.flags
    pick = rng.choice(leaf_parents, size=max(1, len(leaf_parents) // 2), replace=False)
    fl[pick] |= 1
    t.nodes.flags = fl
    return t.tree_sequence(), r


def uneven_spans(rng, ploidy=1):
    """several trees whose spans differ by 5-6 orders of magnitude (first breakpoint moved to 1)"""
    ts, r = zoo.sim(rng, n=int(rng.integers(3, 8)), L=1e6, rec=float(rng.choice([1.0, 3.0])) / (4 * 100.0 * 1e6),
                    Ne=100.0, ploidy=ploidy, mut_per_edge=5.0)
    bp = ts.breakpoints(as_array=True)
    if len(bp) < 3:
        return ts, r
    if rng.random() < 0.5:
        # mirror the genome so that the tiny tree can also be the last one
        L_ = ts.sequence_length
        t0 = ts.dump_tables()
        l0, r0 = t0.edges.left.copy(), t0.edges.right.copy()
        t0.edges.left, t0.edges.right = L_ - r0, L_ - l0
        t0.sites.position = L_ - t0.sites.position - 0.5
        t0.mutations.time = np.full(t0.mutations.num_rows, np.nan)
        import tskit as _tk
        t0.mutations.time = np.full(t0.mutations.num_rows, _tk.UNKNOWN_TIME)
        t0.sort(); t0.build_index(); t0.compute_mutation_parents()
        ts = t0.tree_sequence()
        bp = ts.breakpoints(as_array=True)
    b1 = bp[1]
    t = ts.dump_tables()
    for col in ("left", "right"):
        v = getattr(t.edges, col).copy()
        v[v == b1] = 1.0
        setattr(t.edges, col, v)
    pos = t.sites.position.copy()
    low = pos < b1
    pos[low] = pos[low] / b1 * 0.999
    pos[~low] = np.maximum(pos[~low], 1.0)
    # keep positions strictly increasing
    for k in range(1, len(pos)):
        if pos[k] <= pos[k - 1]:
            pos[k] = np.nextafter(pos[k - 1], np.inf)
    t.sites.position = pos
    t.mutations.time = np.full(t.mutations.num_rows, -1.0)
    t.mutations.time = np.full(t.mutations.num_rows, np.nan)
    import tskit
    t.mutations.time = np.full(t.mutations.num_rows, tskit.UNKNOWN_TIME)
    t.sort(); t.build_index(); t.compute_mutation_parents()
    r["gen"] = "uneven_spans"
    return t.tree_sequence(), r


def main(path, seed, nruns):
    rng = np.random.default_rng(seed)
    runs = 0
    for k in range(nruns):
        kind = [0, 1, 2, 3, 4, 5, 6, 7, 7, 6, 4, 3][k % 12]
        try:
            if kind == 6:
                ts, r = uneven_spans(rng)
                kw = {}
            elif kind == 7:
                ts, r = uneven_spans(rng, ploidy=2)
                kw = {"singletons_phased": False}
            elif kind == 0:
                ts, r = zoo.sim(rng)
                kw = {}
            elif kind == 1:
                ts, r = zoo.sim_historical(rng)
                kw = {}
            elif kind == 2:
                ts, r = zoo.sim(rng, n=int(rng.integers(3, 9)))
                ts, _ = zoo.flag_internal_sample(ts, rng, k=2)
                kw = {}
            elif kind == 3:
                ts, r = zoo.sim(rng, ploidy=2, n=int(rng.integers(2, 6)), mut_per_edge=float(rng.choice([1.0, 8.0])))
                kw = {"singletons_phased": False}
            elif kind == 4:
                ts, r = unphased_with_fixed_parent(rng)
                kw = {"singletons_phased": False}
            else:
                ts, r = zoo.any_input(rng, allow_inferred=False)
                kw = {}
            scale = float(rng.choice([1e-3, 1.0, 1.0, 1e4]))
            if kind in (1, 2) and rng.random() < 0.5:
                # the same problem in very small / very large time units (fixed child ages far from 1)
                tc = float(rng.choice([1e-12, 1e-10, 1e-6, 1e6]))
                ts = zoo.rescale_time(ts, tc)
                scale *= tc
            tsdate.variational_gamma(ts, mutation_rate=common.default_mu(ts, r) / scale,
                                     max_iterations=int(rng.choice([3, 10, 25])), rescaling_intervals=0,
                                     max_shape=float(rng.choice([10.0, 1000.0])), **kw)
            runs += 1
        except Exception:
            pass
    for n in PAIR + FIXED:
        store[n] = special[n] + store[n]
    with open(path, "w") as f:
        json.dump({"store": store, "seen": seen, "runs": runs, "near_boundary_events": seen_special,
                   "n_special": {n: len(special[n]) for n in PAIR + FIXED}}, f)
    print("C18HARVEST", json.dumps(seen))


if __name__ == "__main__":
    main(sys.argv[1], int(sys.argv[2]), int(sys.argv[3]))
