"""Fresh-process worker for C09(b): date the inputs listed in a job file and print digests."""
import hashlib
import json
import sys
import warnings

warnings.filterwarnings("ignore")
import logging

logging.disable(logging.CRITICAL)
import numpy as np
import tskit

import tsdate


def digest(ts):
    t = ts.tables
    h = hashlib.sha256()
    for a in (t.nodes.time, t.mutations.time, t.mutations.node, t.nodes.metadata,
              t.nodes.metadata_offset, t.mutations.metadata, t.mutations.metadata_offset,
              t.edges.parent, t.edges.child, t.mutations.parent):
        h.update(np.ascontiguousarray(a).tobytes())
    return h.hexdigest()


def main(jobfile):
    with open(jobfile) as f:
        jobs = json.load(f)
    out = {}
    for j in jobs:
        ts = tskit.load(j["path"])
        try:
            res = tsdate.date(ts, method=j["method"], **j["kw"])
            out[j["id"]] = digest(res)
        except Exception as e:  # noqa
            out[j["id"]] = "EXC:" + type(e).__name__ + ":" + str(e)[:80]
    print("C09CHILD " + json.dumps(out))


if __name__ == "__main__":
    main(sys.argv[1])
