"""Real cache writer / reader process for C36.
usage: python -m vpkit.children.c36_child <n> [delay_spec]
Builds ConditionalCoalescentTimes(n) with the cache directory given by XDG_CACHE_HOME and
prints a digest of the table it ended up with."""
import hashlib
import json
import os
import sys
import time
import warnings

warnings.filterwarnings("ignore")
import logging

logging.disable(logging.CRITICAL)
import numpy as np

from tsdate import prior


def main():
    n = int(sys.argv[1])
    delay = float(sys.argv[2]) if len(sys.argv) > 2 else 0.0
    if delay:
        time.sleep(delay)
    t0 = time.time()
    try:
        obj = prior.ConditionalCoalescentTimes(n)
        tab = np.asarray(obj.approx_priors, dtype=float)
        out = {"ok": True, "shape": list(tab.shape), "digest": hashlib.sha256(np.ascontiguousarray(tab).tobytes()).hexdigest(),
               "pid": os.getpid(), "t0": t0, "t1": time.time()}
    except BaseException as e:  # noqa
        out = {"ok": False, "error": f"{type(e).__name__}: {str(e)[:200]}", "pid": os.getpid()}
    print("C36CHILD " + json.dumps(out))


if __name__ == "__main__":
    main()
