"""Helpers shared by the checks: calling tsdate, classifying exceptions, decoding outputs."""
import json
import os
import re
import traceback

import numpy as np
import tskit

import tsdate

NULL = tskit.NULL
METHODS = ("variational_gamma", "inside_outside", "maximization")


def exc_key(e):
    """Mechanism key of an exception: type, innermost tsdate function, message stem."""
    tb = traceback.extract_tb(e.__traceback__)
    func = "?"
    for fr in reversed(tb):
        fn = fr.filename.replace("\\", "/")
        if "/tsdate/" in fn and "/vpkit/" not in fn:
            func = os.path.basename(fn)[:-3] + "." + fr.name
            break
    msg = str(e)
    stem = re.sub(r"[0-9]+(\.[0-9]+)?(e[-+]?[0-9]+)?", "#", msg)
    stem = re.sub(r"\s+", " ", stem)[:60].strip()
    return f"{type(e).__name__}:{func}:{stem}"


def default_mu(ts, recipe):
    if recipe and "mu" in recipe:
        return float(recipe["mu"])
    # something giving node times O(1..100)
    span = float(np.sum(ts.edges_right - ts.edges_left))
    return max(ts.num_mutations, 1) / max(span, 1e-300) / 10.0


def call(fn, *a, **k):
    """returns (result, None) or (None, exception)"""
    try:
        return fn(*a, **k), None
    except Exception as e:  # noqa
        return None, e


def date(ts, method="variational_gamma", **kw):
    return call(tsdate.date, ts, method=method, **kw)


def is_sample(ts):
    return (ts.nodes_flags & tskit.NODE_IS_SAMPLE) > 0


def contemporaneous(ts):
    return bool(np.all(ts.nodes_time[ts.samples()] == 0))


def samples_are_leaves(ts):
    return not np.any(is_sample(ts)[ts.edges_parent])


def discrete_ok(ts):
    """Input shape the discrete-time methods document support for."""
    return contemporaneous(ts) and samples_are_leaves(ts)


def decode_md(table_row_md):
    if isinstance(table_row_md, (bytes, bytearray)):
        if len(table_row_md) == 0:
            return {}
        try:
            return json.loads(table_row_md.decode())
        except Exception:
            return None
    return table_row_md


def node_mn_vr(ts):
    """mn/vr arrays from node metadata, NaN where absent"""
    mn = np.full(ts.num_nodes, np.nan)
    vr = np.full(ts.num_nodes, np.nan)
    for n in ts.nodes():
        md = decode_md(n.metadata)
        if isinstance(md, dict):
            if "mn" in md and md["mn"] is not None:
                mn[n.id] = md["mn"]
            if "vr" in md and md["vr"] is not None:
                vr[n.id] = md["vr"]
    return mn, vr


def mut_mn_vr(ts):
    mn = np.full(ts.num_mutations, np.nan)
    vr = np.full(ts.num_mutations, np.nan)
    for m in ts.mutations():
        md = decode_md(m.metadata)
        if isinstance(md, dict):
            if "mn" in md and md["mn"] is not None:
                mn[m.id] = md["mn"]
            if "vr" in md and md["vr"] is not None:
                vr[m.id] = md["vr"]
    return mn, vr


def rel_err(a, b):
    """max relative deviation between arrays, NaN-aware (NaN must match NaN)"""
    a = np.asarray(a, dtype=float)
    b = np.asarray(b, dtype=float)
    if a.shape != b.shape:
        return np.inf
    na, nb = np.isnan(a), np.isnan(b)
    if np.any(na != nb):
        return np.inf
    ok = ~na
    if not np.any(ok):
        return 0.0
    d = np.abs(a[ok] - b[ok])
    s = np.maximum(np.abs(a[ok]), np.abs(b[ok]))
    with np.errstate(invalid="ignore", divide="ignore"):
        r = np.where(s > 0, d / s, 0.0)
    r = np.where(np.isinf(a[ok]) & (a[ok] == b[ok]), 0.0, r)
    return float(np.nanmax(r)) if r.size else 0.0


def edge_above(ts):
    """per mutation: edge id above its node at its position (mutation.edge), via tskit"""
    return np.array([m.edge for m in ts.mutations()], dtype=np.int64)


def vg_kwargs(rng, small_rescale=True):
    """random valid option set for variational_gamma"""
    kw = {}
    r = rng.random()
    if small_rescale:
        kw["rescaling_intervals"] = int(rng.choice([0, 1, 2, 5, 10])) if r < 0.85 else None
    if rng.random() < 0.4:
        kw["max_iterations"] = int(rng.choice([1, 2, 5, 25, 40]))
    if rng.random() < 0.3:
        kw["rescaling_iterations"] = int(rng.choice([0, 1, 3, 5]))
    if rng.random() < 0.3:
        kw["match_segregating_sites"] = bool(rng.random() < 0.5)
    if rng.random() < 0.3:
        kw["max_shape"] = float(rng.choice([1.5, 2.0, 10.0, 1000.0, 1e6]))
    if rng.random() < 0.2:
        kw["regularise_roots"] = bool(rng.random() < 0.5)
    return kw


def disc_kwargs(rng, ts, Ne=None):
    kw = {"population_size": float(Ne) if Ne else float(10 ** rng.uniform(1, 4))}
    if rng.random() < 0.5:
        kw["probability_space"] = str(rng.choice(["linear", "logarithmic"]))
    if rng.random() < 0.3:
        kw["eps"] = float(10 ** rng.uniform(-10, -3))
    return kw


def can_unphase(ts):
    """True if singletons_phased=False is acceptable: all individuals diploid & contemporary"""
    if ts.num_individuals == 0:
        return True
    for ind in ts.individuals():
        if len(ind.nodes) != 2 or np.any(ts.nodes_time[ind.nodes] != 0):
            return False
    return True
