"""Two-run (metamorphic) monitors: run date() twice on related inputs and compare everything
a user can read off the result. Also the recording wrapper that *observes* the near-tie
mechanism inside the rescaling step (see DESIGN 3.4)."""
import numpy as np
import tskit

import tsdate
from vpkit import common

_rec_mt = {"calls": None}
_orig_mt = tsdate.variational.mutational_timescale


def _mt_wrapper(nodes_time, likelihoods, nodes_fixed, edges_parent, edges_child, max_intervals):
    if _rec_mt["calls"] is not None:
        _rec_mt["calls"].append((np.array(nodes_time, copy=True), np.array(nodes_fixed, copy=True)))
    return _orig_mt(nodes_time, likelihoods, nodes_fixed, edges_parent, edges_child, max_intervals)


tsdate.variational.mutational_timescale = _mt_wrapper


class Out:
    __slots__ = ("ts", "times", "mut_times", "mut_nodes", "node_mn", "node_vr", "mut_mn", "mut_vr",
                 "mt_calls", "exc", "lik", "fit")


def run(ts, method, kw, want_lik=False):
    """date() with return_fit; returns Out (exc set when it raised)."""
    o = Out()
    o.exc = None
    o.lik = None
    o.fit = None
    _rec_mt["calls"] = []
    k = dict(kw)
    k["return_fit"] = True
    if want_lik:
        k["return_likelihood"] = True
    try:
        res = tsdate.date(ts, method=method, **k)
    except Exception as e:  # noqa
        o.exc = e
        o.mt_calls = _rec_mt["calls"]
        _rec_mt["calls"] = None
        return o
    o.mt_calls = _rec_mt["calls"]
    _rec_mt["calls"] = None
    out, fit = res[0], res[1]
    if want_lik:
        o.lik = res[2]
    o.ts = out
    o.fit = fit
    o.times = out.nodes_time.copy()
    o.mut_times = out.mutations_time.copy()
    o.mut_nodes = out.mutations_node.copy()
    n, m = out.num_nodes, out.num_mutations
    o.node_mn = o.node_vr = o.mut_mn = o.mut_vr = None
    if method == "variational_gamma":
        p = fit.node_posteriors()
        o.node_mn, o.node_vr = p["mean"].copy(), p["variance"].copy()
        q = fit.mutation_posteriors()
        o.mut_mn, o.mut_vr = q["mean"].copy(), q["variance"].copy()
    elif method == "inside_outside":
        mn, vr = tsdate.core.DiscreteTimeMethod.mean_var(ts, fit.posterior_grid)
        o.node_mn, o.node_vr = mn, vr
    else:
        o.node_mn = np.asarray(fit.posterior_mean, dtype=float).copy()
    return o


def compare(rec, a, b, ct=1.0, rtol=1e-12, label="", node_map=None, mut_map=None):
    """b should equal a with times scaled by ct. node_map[i_a] = i_b (optional).
    Returns dict of relative deviations; records maxima; does not record violations."""
    devs = {}

    def mapn(x):
        return x if node_map is None or x is None else x[node_map]

    def mapm(x):
        return x if mut_map is None or x is None else x[mut_map]

    devs["node_time"] = common.rel_err(a.times * ct, mapn(b.times))
    devs["mut_time"] = common.rel_err(a.mut_times * ct, mapm(b.mut_times))
    if a.node_mn is not None and b.node_mn is not None:
        devs["node_mn"] = common.rel_err(a.node_mn * ct, mapn(b.node_mn))
    def vr_dev(va, vb, ma):
        # a variance that has underflowed into the subnormal range (a point-mass posterior)
        # carries no relative precision: values below 1e-250 * mean^2 are compared as zero
        va, vb = np.array(va, dtype=float), np.array(vb, dtype=float)
        floor = 1e-250 * np.square(np.where(np.isfinite(ma), ma, 0.0))
        tiny = (np.abs(va) <= floor) & (np.abs(vb) <= floor)
        va[tiny] = 0.0
        vb[tiny] = 0.0
        return common.rel_err(va, vb)

    if a.node_vr is not None and b.node_vr is not None:
        devs["node_vr"] = vr_dev(a.node_vr * ct * ct, mapn(b.node_vr), a.node_mn * ct)
    if a.mut_mn is not None and b.mut_mn is not None:
        devs["mut_mn"] = common.rel_err(a.mut_mn * ct, mapm(b.mut_mn))
        devs["mut_vr"] = vr_dev(a.mut_vr * ct * ct, mapm(b.mut_vr), a.mut_mn * ct)
    for k, v in devs.items():
        rec.maxi(f"dev:{label}:{k}", v if np.isfinite(v) else 1e300)
    return devs


def near_tie_evidence(a, b, rel=1e-9):
    """Observed-mechanism rule: some recorded mutational_timescale() call (either run) has two
    distinct non-fixed node times with relative gap < rel, or the two runs disagree on the
    number of distinct node times in some call."""
    ev = []
    for o in (a, b):
        for (t, fixed) in o.mt_calls or ():
            free = np.sort(t[~fixed])
            if free.size > 1:
                d = np.diff(free)
                s = free[1:]
                with np.errstate(divide="ignore", invalid="ignore"):
                    r = np.where(s > 0, d / s, np.inf)
                m = (d > 0) & (r < rel)
                if np.any(m):
                    ev.append(("near-tie", float(np.min(r[m]))))
                    break
    na = [len(np.unique(t)) for t, f in (a.mt_calls or ())]
    nb = [len(np.unique(t)) for t, f in (b.mt_calls or ())]
    if na != nb:
        ev.append(("distinct-count-differs", (na[:3], nb[:3])))
    return ev


def linear_underflow(*outs):
    """True when a linear-space discrete run worked with cells at the bottom of the floating-point range
    (subnormal or about to be): such cells have lost most of their digits, and the order in which factors
    are multiplied - hence node numbering - shows in the result. Observed on the fit, not assumed."""
    for o in outs:
        fit = getattr(o, "fit", None)
        for name in ("inside", "outside", "posterior_grid"):
            g = getattr(fit, name, None)
            if g is None or not hasattr(g, "grid_data"):
                continue
            if getattr(g, "probability_space", None) not in (None, "linear"):
                continue
            arr = np.asarray(g.grid_data, dtype=float)
            if np.any((arr > 0) & (arr < 1e-300)):
                return True
    return False
