"""Independent numerical integration of the tilted distributions behind tsdate.approx.*_moments.

Each density is written from the docstring's log-density. Two-dimensional cases are reduced to
one numerical dimension by integrating the scale variable analytically (a gamma integral) and
the ratio variable u in (0,1) numerically with mpmath (tanh-sinh, split at the mode).
All functions return plain floats; `None` means the quadrature did not converge.
"""
import mpmath as mp

mp.mp.dps = 25


def _split_points(logf, lo, hi, n=200):
    """mode of logf on (lo, hi) by a coarse scan then refinement; returns sorted split list"""
    lo, hi = mp.mpf(lo), mp.mpf(hi)
    xs = [lo + (hi - lo) * (mp.mpf(k) + mp.mpf("0.5")) / n for k in range(n)]
    vals = [logf(x) for x in xs]
    k = max(range(n), key=lambda j: vals[j])
    a = xs[max(k - 1, 0)]
    b = xs[min(k + 1, n - 1)]
    for _ in range(60):
        m1 = a + (b - a) * mp.mpf("0.382")
        m2 = a + (b - a) * mp.mpf("0.618")
        if logf(m1) < logf(m2):
            a = m1
        else:
            b = m2
    mode = (a + b) / 2
    return mode, logf(mode)


def _expect_u(logw, funcs):
    """integrals over u in (0,1) of exp(logw(u)) * g(u) for g in funcs, normalised by max"""
    mode, top = _split_points(logw, 0, 1)
    # width around the mode from the curvature (numerical second difference)
    h = min(mode, 1 - mode) / 50
    pts = [mp.mpf(0)]
    if h > 0:
        curv = (logw(mode + h) - 2 * top + logw(mode - h)) / h ** 2
        if curv < 0:
            w = 1 / mp.sqrt(-curv)
            for k in (8, 3, 1):
                if mode - k * w > 0:
                    pts.append(mode - k * w)
            pts.append(mode)
            for k in (1, 3, 8):
                if mode + k * w < 1:
                    pts.append(mode + k * w)
        else:
            pts.append(mode)
    pts.append(mp.mpf(1))
    pts = sorted(set(pts))
    out = []
    for g in funcs:
        val, err = mp.quad(lambda u: mp.exp(logw(u) - top) * g(u), pts, error=True, maxdegree=10)
        out.append((val, err))
    return out


def _expect_t(logp, funcs, lo, hi_hint):
    """integrals over t in (lo, inf) or (lo, hi) of exp(logp) g(t); hi_hint finite => bounded"""
    bounded = hi_hint is not None
    if bounded:
        a, b = mp.mpf(lo), mp.mpf(hi_hint)
        mode, top = _split_points(logp, a, b)
        pts = [a, mode, b]
        h = min(mode - a, b - mode) / 50
    else:
        # find a scale: scan log-spaced points
        a = mp.mpf(lo)
        best, bestv = None, None
        for k in range(-60, 61):
            x = a + mp.mpf(10) ** (mp.mpf(k) / 4)
            v = logp(x)
            if bestv is None or v > bestv:
                best, bestv = x, v
        l, r = a + (best - a) / mp.mpf(10) ** mp.mpf("0.25"), a + (best - a) * mp.mpf(10) ** mp.mpf("0.25")
        mode, top = _split_points(logp, l, r)
        h = (mode - a) / 50
        pts = [a, mode]
    if h > 0:
        curv = (logp(mode + h) - 2 * top + logp(mode - h)) / h ** 2
        if curv < 0:
            w = 1 / mp.sqrt(-curv)
            extra = []
            for k in (1, 3, 8, 20):
                if mode - k * w > pts[0]:
                    extra.append(mode - k * w)
                if (not bounded) or mode + k * w < pts[-1]:
                    extra.append(mode + k * w)
            pts = sorted(set(pts + extra))
    if not bounded:
        pts = sorted(set(pts)) + [mp.inf]
    out = []
    for g in funcs:
        val, err = mp.quad(lambda t: mp.exp(logp(t) - top) * g(t), pts, error=True, maxdegree=10)
        out.append((val, err))
    return out


def _ratio(res, tol=1e-6):
    """res[0] is the normaliser; returns list of E[g] or None if not converged"""
    z, ez = res[0]
    if not (z > 0) or ez > tol * z:
        return None
    out = []
    for v, e in res[1:]:
        if e > tol * max(abs(v), z * mp.mpf(10) ** -30):
            return None
        out.append(v / z)
    return out


# ------------------------------------------------------------------ two free nodes, t_i > t_j

def pair_moments(a_i, b_i, a_j, b_j, y, mu):
    """E[t_i], V[t_i], E[t_j], V[t_j], E[t_i t_j] under
    (t_i - t_j)^y e^{-mu (t_i - t_j)} t_i^{a_i-1} e^{-b_i t_i} t_j^{a_j-1} e^{-b_j t_j}, t_i > t_j > 0"""
    a_i, b_i, a_j, b_j, y, mu = [mp.mpf(x) for x in (a_i, b_i, a_j, b_j, y, mu)]
    s = y + a_i + a_j

    def c(u):
        return mu + b_i + u * (b_j - mu)

    def lw(k):
        return lambda u: y * mp.log(1 - u) + (a_j - 1) * mp.log(u) - (s + k) * mp.log(c(u))

    def E(k, g):   # E-weight with s^(k) gamma factor
        return g

    res = {}
    # moments use different powers of c: compute each as its own ratio to the k=0 integral
    base = _expect_u(lw(0), [lambda u: mp.mpf(1)])
    z0, e0 = base[0]
    mode0, top0 = _split_points(lw(0), 0, 1)

    def integral(k, g):
        r = _expect_u(lw(k), [g])
        modek, topk = _split_points(lw(k), 0, 1)
        v, e = r[0]
        return v * mp.exp(topk), e * mp.exp(topk)

    Z, eZ = z0 * mp.exp(top0), e0 * mp.exp(top0)
    if not (Z > 0) or eZ > 1e-6 * Z:
        return None

    def mom(k, g):
        v, e = integral(k, g)
        if e > 1e-6 * abs(v):
            return None
        return v / Z * mp.rf(s, k)

    Ei = mom(1, lambda u: mp.mpf(1))
    Ei2 = mom(2, lambda u: mp.mpf(1))
    Ej = mom(1, lambda u: u)
    Ej2 = mom(2, lambda u: u * u)
    Eij = mom(2, lambda u: u)
    if None in (Ei, Ei2, Ej, Ej2, Eij):
        return None
    return float(Ei), float(Ei2 - Ei ** 2), float(Ej), float(Ej2 - Ej ** 2), float(Eij)


def unphased_pair_moments(a_i, b_i, a_j, b_j, y, mu):
    """under (t_i + t_j)^y e^{-mu (t_i + t_j)} gamma(a_i,b_i)(t_i) gamma(a_j,b_j)(t_j):
    returns dict with E/V of t_i, t_j and the mutation quantities"""
    a_i, b_i, a_j, b_j, y, mu = [mp.mpf(x) for x in (a_i, b_i, a_j, b_j, y, mu)]
    s = y + a_i + a_j   # after substitution t_i = S(1-u), t_j = S u (Jacobian S)

    def c(u):
        return mu + b_i * (1 - u) + b_j * u

    def lw(k):
        return lambda u: (a_i - 1) * mp.log(1 - u) + (a_j - 1) * mp.log(u) - (s + k) * mp.log(c(u))

    def integral(k, g):
        r = _expect_u(lw(k), [g])
        modek, topk = _split_points(lw(k), 0, 1)
        v, e = r[0]
        return v * mp.exp(topk), e * mp.exp(topk)

    Z, eZ = integral(0, lambda u: mp.mpf(1))
    if not (Z > 0) or eZ > 1e-6 * Z:
        return None

    def mom(k, g):
        v, e = integral(k, g)
        if e > 1e-6 * abs(v) + mp.mpf(10) ** -300:
            return None
        return v / Z * mp.rf(s, k)

    q = {}
    q["Ei"] = mom(1, lambda u: 1 - u)
    q["Ei2"] = mom(2, lambda u: (1 - u) ** 2)
    q["Ej"] = mom(1, lambda u: u)
    q["Ej2"] = mom(2, lambda u: u * u)
    q["pr_i"] = mom(0, lambda u: 1 - u)
    q["Em"] = mom(1, lambda u: ((1 - u) ** 2 + u ** 2) / 2)
    q["Em2"] = mom(2, lambda u: ((1 - u) ** 3 + u ** 3) / 3)
    if any(v is None for v in q.values()):
        return None
    return {k: float(v) for k, v in q.items()}


# ------------------------------------------------------------------ one free node

def rootward(t_j, a_i, b_i, y, mu):
    """t_i > t_j: (t_i - t_j)^y e^{-mu (t_i - t_j)} t_i^{a_i-1} e^{-b_i t_i}; returns E, V"""
    t_j, a_i, b_i, y, mu = [mp.mpf(x) for x in (t_j, a_i, b_i, y, mu)]
    lp = lambda t: y * mp.log(t - t_j) - mu * (t - t_j) + (a_i - 1) * mp.log(t) - b_i * t  # noqa
    r = _ratio(_expect_t(lp, [lambda t: mp.mpf(1), lambda t: t, lambda t: t * t], t_j, None))
    if r is None:
        return None
    return float(r[0]), float(r[1] - r[0] ** 2)


def leafward(t_i, a_j, b_j, y, mu):
    """0 < t_j < t_i"""
    t_i, a_j, b_j, y, mu = [mp.mpf(x) for x in (t_i, a_j, b_j, y, mu)]
    lp = lambda t: y * mp.log(t_i - t) - mu * (t_i - t) + (a_j - 1) * mp.log(t) - b_j * t  # noqa
    r = _ratio(_expect_t(lp, [lambda t: mp.mpf(1), lambda t: t, lambda t: t * t], 0, t_i))
    if r is None:
        return None
    return float(r[0]), float(r[1] - r[0] ** 2)


def sideways(t_i, a_j, b_j, y, mu):
    """t_j > 0: (t_i + t_j)^y e^{-mu (t_i + t_j)} t_j^{a_j-1} e^{-b_j t_j};
    returns E[t_j], V[t_j], pr_i, E[t_m], E[t_m^2]"""
    t_i, a_j, b_j, y, mu = [mp.mpf(x) for x in (t_i, a_j, b_j, y, mu)]
    lp = lambda t: y * mp.log(t_i + t) - mu * (t_i + t) + (a_j - 1) * mp.log(t) - b_j * t  # noqa
    fs = [lambda t: mp.mpf(1), lambda t: t, lambda t: t * t,
          lambda t: t_i / (t_i + t),
          lambda t: (t_i ** 2 + t ** 2) / (2 * (t_i + t)),
          lambda t: (t_i ** 3 + t ** 3) / (3 * (t_i + t))]
    r = _ratio(_expect_t(lp, fs, 0, None))
    if r is None:
        return None
    return float(r[0]), float(r[1] - r[0] ** 2), float(r[2]), float(r[3]), float(r[4])
