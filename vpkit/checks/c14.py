"""C14 - conditional coalescent prior moments are exact.

Reference-model monitor: an exact DP over the Kingman jump chain with a marked k-subset
(derived from the coalescent's definition, not from the recursion in prior.py) gives the
mean and variance of the clade's MRCA age conditional on monophyly.
"""
from fractions import Fraction

import mpmath
import numpy as np

from tsdate import prior as tprior

ID = "C14"
N = {"quick": 40, "thorough": 145}
BUDGET = {"quick": 240.0, "thorough": 1800.0}
RULE = ("case = one total sample count n; every k in 2..n is judged for both prior distributions; "
        "quick: every n in 2..40 (exhaustive for that bound, exact rationals) plus n=1300 at 8 spot values of k; thorough: every n in "
        "2..100 plus 41 larger n up to 400 (40-digit arithmetic); distinct = (n,k) pairs; "
        "non-trivial = k < n or n > 2; for n <= 40 the rows are also requested from an object that has a "
        "lookup table and served an approximate add() first")
EXHAUSTIVE = True


def exact_moments(n, exact=True, ks=None):
    """dict k -> (mean, var) of the age of the MRCA of a fixed k-subset conditional on it
    being a clade; time in units where j lineages coalesce at rate C(j,2)."""
    if exact:
        F = Fraction
        one = Fraction(1)
    else:
        mpmath.mp.dps = 40
        F = mpmath.mpf
        one = mpmath.mpf(1)
    C2 = [F(j * (j - 1)) / 2 for j in range(n + 2)]
    # cumulative mean / variance of sum_{i=j}^{n} Exp(C(i,2))
    cm = [F(0)] * (n + 2)
    cv = [F(0)] * (n + 2)
    for j in range(n, 1, -1):
        cm[j] = cm[j + 1] + one / C2[j]
        cv[j] = cv[j + 1] + one / (C2[j] * C2[j])
    out = {}
    for k in (range(2, n + 1) if ks is None else ks):
        # f[s] at current j: probability of being in state (j, s) with the subset unbroken
        f = {k: one}
        pm = F(0)   # P(monophyletic)
        m1 = F(0)
        m2 = F(0)
        for j in range(n, 1, -1):
            nf = {}
            for s, p in f.items():
                if s >= 2:
                    w = p * C2[s] / C2[j]
                    if s == 2:
                        # the subset's MRCA forms while j lineages are present
                        pm += w
                        m1 += w * cm[j]
                        m2 += w * (cv[j] + cm[j] * cm[j])
                    else:
                        nf[s - 1] = nf.get(s - 1, 0) + w
                o = j - s
                if o >= 2:
                    nf[s] = nf.get(s, 0) + p * C2[o] / C2[j]
            f = nf
            if not f:
                break
        mean = m1 / pm
        var = m2 / pm - mean * mean
        out[k] = (float(mean), float(var))
    return out


BIG_QUICK = [1300]
BIG_THOROUGH = [1100, 1300, 2000, 3000]


def big_ks(n):
    return sorted({2, 3, 4, 10, 50, n - 50, n - 1, n})


def ns_for(ctx):
    if ctx.tier == "quick":
        return list(range(2, 41)) + BIG_QUICK
    rng = ctx.rng(0)
    big = sorted(set(int(x) for x in np.round(np.exp(rng.uniform(np.log(101), np.log(400), size=41)))))
    return list(range(2, 101)) + big + BIG_THOROUGH


def case(ctx, i, rec):
    ns = ns_for(ctx)
    if i >= len(ns):
        return
    n = ns[i]
    exact = n <= 60
    ks = big_ks(n) if n > 400 else None
    ref = exact_moments(n, exact=exact, ks=ks)
    if ks is not None:
        rec.count("large_n_cases(spot values of k)")
    rec.sig = f"n={n}"
    rec.nontrivial = n > 2
    if i < 3:
        rec.sample = dict(n=n, k_range=[2, n], arithmetic="Fraction" if exact else "mpmath-40", example={"k": n, "mean": ref[n][0], "var": ref[n][1]})
    if n <= 40:
        history_part(ctx, n, ref, rec)
    for distr in ("lognorm", "gamma"):
        obj = tprior.ConditionalCoalescentTimes(None, distr)
        obj.add(n)
        rows = obj[n]
        for k in (range(2, n + 1) if ks is None else ks):
            alpha, beta, mean, var = [float(x) for x in rows[k]]
            rm, rv = ref[k]
            e1 = abs(mean - rm) / rm
            e2 = abs(var - rv) / rv
            rec.maxi("mean_relerr", e1)
            rec.maxi("var_relerr", e2)
            rec.count("pairs_judged")
            if distr == "lognorm":
                rec.subcase(f"{n},{k}", nontrivial=(k < n or n > 2))
            if not (e1 <= 1e-10):
                rec.violation("mean-not-exact", f"n={n} k={k}: mean {mean!r}, exact {rm!r} (rel {e1:.3g})", n=n, k=k)
            if not (e2 <= 1e-9):
                rec.violation("variance-not-exact", f"n={n} k={k}: variance {var!r}, exact {rv!r} (rel {e2:.3g})", n=n, k=k)
            if distr == "lognorm":
                b = np.log(var / mean ** 2 + 1)
                a = np.log(mean) - 0.5 * b
            else:
                a = mean ** 2 / var
                b = mean / var
            ea = abs(alpha - a) / max(abs(a), 1e-300) if a != 0 else abs(alpha)
            eb = abs(beta - b) / max(abs(b), 1e-300)
            rec.maxi(f"param_relerr:{distr}", max(ea, eb))
            if not (max(ea, eb) <= 1e-12) and not (abs(alpha - a) <= 1e-14):
                rec.violation(f"{distr}-params-not-moment-matched",
                              f"n={n} k={k}: (alpha,beta)=({alpha!r},{beta!r}) but moment matching gives ({a!r},{b!r})", n=n, k=k)


def history_part(ctx, n, ref, rec):
    """the same rows requested from an object with a call history: a lookup table is present and an
    approximate add() came first; a default add(n) for small n must still be exact"""
    import os
    import pathlib
    d = pathlib.Path(ctx.scratch) / f"c14cache-{os.getpid()}"
    d.mkdir(parents=True, exist_ok=True)
    orig = tprior.cache.get_cache_dir
    tprior.cache.get_cache_dir = lambda: d
    try:
        for distr in ("lognorm", "gamma"):
            obj = tprior.ConditionalCoalescentTimes(20, distr)
            obj.add(n + 7, approximate=True)
            obj.add(n)
            rows = obj[n]
            worst = 0.0
            for k in range(2, n + 1):
                alpha, beta, mean, var = [float(x) for x in rows[k]]
                rm, rv = ref[k]
                worst = max(worst, abs(mean - rm) / rm, abs(var - rv) / rv)
                rec.count("pairs_judged_after_call_history")
            rec.maxi("relerr_after_call_history", worst)
            if not (worst <= 1e-9):
                rec.violation("not-exact-after-an-approximate-add",
                              f"n={n} ({distr}): after add({n + 7}, approximate=True) a default add({n}) stored moments "
                              f"off by {worst:.3g} relative", n=n)
    finally:
        tprior.cache.get_cache_dir = orig


def post(ctx, agg):
    ns = ns_for(ctx)
    agg.extra["n_values"] = [ns[0], "...", ns[-1], f"{len(ns)} values"]
    agg.extra["exhaustive"] = bool(agg.not_run == 0 and agg.evaluations >= len(ns))
    agg.extra["exhaustive_note"] = "every (n,k), 2<=k<=n<=40 (quick) / <=100 plus sampled n<=400 (thorough)"


def reach(ctx, agg):
    need = {"pairs_judged": 1500, "pairs_judged_after_call_history": 500}
    return [f"{k} = {agg.cnt.get(k, 0)} < {v}" for k, v in need.items() if agg.cnt.get(k, 0) < v]
