"""C30 - unary-node detection is exact.

Reference-model monitor: a per-tree scan with tskit's num_children_array vs
util.contains_unary_nodes / prior.has_locally_unary_nodes and vs the accept/reject decision of
the three methods with allow_unary=False.
"""
import numpy as np
import tskit

import tsdate
from tsdate import prior as tprior, util
from vpkit import common, zoo

ID = "C30"
N = {"quick": 220, "thorough": 6000}
BUDGET = {"quick": 240.0, "thorough": 700.0}
RULE = ("case = (simulation; kept-unary simplification to a sample subset; a leaf edge cut on the left "
        "flank / middle / right flank of the last tree without simplifying; unary nodes re-flagged as "
        "samples, some with extra flag bits); distinct by topology hash; non-trivial = input has >=2 trees; detectors and the "
        "methods' accept/reject decisions are compared with a per-tree scan")


def oracle(ts):
    """(some non-sample node unary somewhere, some node unary somewhere)"""
    issample = common.is_sample(ts)
    ns = anyn = False
    for tree in ts.trees():
        nc = tree.num_children_array[:-1]
        un = nc == 1
        if np.any(un):
            anyn = True
            if np.any(un & ~issample):
                ns = True
                break
    return ns, anyn


def cut_leaf_edge(ts, rng, where):
    t = ts.dump_tables()
    t.mutations.time = np.full(t.mutations.num_rows, tskit.UNKNOWN_TIME)
    samples = set(ts.samples().tolist())
    L = ts.sequence_length
    last_left = float(np.max(ts.edges_left))
    cand = [e for e in ts.edges() if e.child in samples]
    if where == "right":
        cand = [e for e in cand if e.right == L and e.right - max(e.left, last_left) > 2]
    elif where == "left":
        cand = [e for e in cand if e.left == 0 and e.right > 2]
    cand = [e for e in cand if e.right - e.left > 3]
    if not cand:
        return ts, False
    e = cand[int(rng.integers(len(cand)))]
    if where == "right":
        lo = max(e.left, last_left)
        x = float(np.floor(rng.uniform(lo + 1, e.right - 0.5)))
        x = max(x, lo + 1)
        new = [(e.left, x)]
    elif where == "left":
        x = float(np.ceil(rng.uniform(e.left + 0.5, e.right - 1)))
        new = [(x, e.right)]
    else:
        a, b = sorted(rng.uniform(e.left + 0.5, e.right - 0.5, size=2))
        a, b = float(np.ceil(a)), float(np.floor(b))
        if not (e.left < a < b < e.right):
            return ts, False
        new = [(e.left, a), (b, e.right)]
    keep = np.ones(ts.num_edges, dtype=bool)
    keep[e.id] = False
    t.edges.keep_rows(keep)
    for l, r_ in new:
        if r_ > l:
            t.edges.add_row(l, r_, e.parent, e.child)
    # mutations on the removed piece are dropped
    pos = ts.sites_position[ts.mutations_site]
    km = np.ones(ts.num_mutations, dtype=bool)
    for m in range(ts.num_mutations):
        if ts.mutations_node[m] == e.child and e.left <= pos[m] < e.right and not any(l <= pos[m] < r_ for l, r_ in new):
            km[m] = False
    t.mutations.keep_rows(km)
    t.sort()
    t.build_index()
    t.compute_mutation_parents()
    return t.tree_sequence(), True


def case(ctx, i, rec):
    rng = ctx.rng(i)
    kind = ["plain", "kept_unary", "cut_right", "cut_left", "cut_middle", "unary_samples", "plain_inferred", "cut_right"][i % 8]
    ts, r = zoo.sim(rng, n=int(rng.integers(3, 12)), L=1e3, mut_per_edge=3.0)
    if kind == "kept_unary":
        full, r = zoo.sim(rng, n=int(rng.integers(5, 14)), L=1e3, mut_per_edge=3.0)
        sub = rng.choice(full.samples(), size=max(2, full.num_samples // 2), replace=False)
        ts = full.simplify(np.sort(sub), keep_unary=True)
    elif kind.startswith("cut_"):
        ts, ok = cut_leaf_edge(ts, rng, kind[4:])
        if not ok:
            kind = "plain"
    elif kind == "unary_samples":
        full, r = zoo.sim(rng, n=int(rng.integers(5, 14)), L=1e3, mut_per_edge=3.0)
        sub = rng.choice(full.samples(), size=max(2, full.num_samples // 2), replace=False)
        ts = full.simplify(np.sort(sub), keep_unary=True)
        # flag every locally unary non-sample node as a sample
        un = set()
        for tree in ts.trees():
            nc = tree.num_children_array[:-1]
            un |= set(np.flatnonzero(nc == 1).tolist())
        t = ts.dump_tables()
        fl = t.nodes.flags
        for u in un:
            fl[u] |= 1
        if rng.random() < 0.6:
            # sample nodes may carry further flag bits (tsinfer's historical-sample bit, user bits)
            bits = np.uint32(int(rng.choice([1 << 19, 1 << 20, (1 << 19) | (1 << 25), 1 << 31])))
            who = np.array(sorted(un)) if (rng.random() < 0.5 or not un) else np.flatnonzero(fl & 1)
            if len(who):
                fl[who] |= bits
                rec.count("inputs_with_extra_flag_bits_on_samples")
        t.nodes.flags = fl
        ts = t.tree_sequence()
    elif kind == "plain_inferred":
        try:
            ts, r = zoo.inferred(rng, L=1e3)
        except Exception:
            pass
    if ts.num_mutations == 0:
        rec.count("skipped_no_mutations")
        return
    r["gen"] = kind
    rec.sig = zoo.ts_sig(ts)
    rec.nontrivial = ts.num_trees >= 2
    ns, anyn = oracle(ts)
    rec.count(f"inputs:{kind}")
    rec.count("inputs_with_unary_nonsample" if ns else "inputs_without_unary_nonsample")
    if anyn and not ns:
        rec.count("inputs_with_unary_samples_only")
    if i < 3:
        rec.sample = dict(recipe=r, unary_nonsample=ns, unary_any=anyn, trees=ts.num_trees)
    # detectors
    try:
        d1 = bool(util.contains_unary_nodes(ts))
        if d1 != ns:
            rec.violation("contains_unary_nodes-wrong", f"{kind}: contains_unary_nodes={d1}, per-tree scan says {ns}")
        d1b = bool(util.contains_unary_nodes(ts, skip_samples=False))
        if d1b != anyn:
            rec.violation("contains_unary_nodes(skip_samples=False)-wrong", f"{kind}: {d1b} vs scan {anyn}")
    except Exception as e:
        rec.violation("contains_unary_nodes-raised", f"{common.exc_key(e)}")
    try:
        d2 = bool(tprior.has_locally_unary_nodes(ts))
        if d2 != anyn:
            rec.violation("has_locally_unary_nodes-wrong", f"{kind}: has_locally_unary_nodes={d2}, per-tree scan says {anyn}")
    except Exception as e:
        rec.violation("has_locally_unary_nodes-raised", f"{common.exc_key(e)}")
    rec.count("detector_comparisons")
    # accept / reject
    mu = common.default_mu(ts, r)
    res, exc = common.call(tsdate.variational_gamma, ts, mutation_rate=mu, rescaling_intervals=0, max_iterations=2)
    rejected = isinstance(exc, ValueError) and "unary" in str(exc).lower()
    if exc is not None and not rejected:
        rec.count("vg_other_failure:" + common.exc_key(exc)[:50])
    else:
        rec.count("vg_decisions")
        if rejected != ns:
            rec.violation("variational_gamma:accept-reject-wrong",
                          f"{kind}: {'rejected' if rejected else 'accepted'} although a non-sample unary node {'exists' if ns else 'does not exist'}")
    if i % 2 == 0 and common.discrete_ok(ts):
        method = ["inside_outside", "maximization"][(i // 2) % 2]
        res, exc = common.date(ts, method, mutation_rate=mu, population_size=100.0)
        rejected = isinstance(exc, ValueError) and "unary" in str(exc).lower()
        if exc is not None and not rejected:
            rec.count("discrete_other_failure:" + common.exc_key(exc)[:50])
        else:
            rec.count("discrete_decisions")
            if rejected != anyn:
                rec.violation(f"{method}:accept-reject-wrong",
                              f"{kind}: {'rejected' if rejected else 'accepted'} although a unary node {'exists' if anyn else 'does not exist'}")


def reach(ctx, agg):
    need = {"inputs_with_unary_nonsample": 50, "inputs_without_unary_nonsample": 50, "inputs_with_unary_samples_only": 5,
            "detector_comparisons": 150, "inputs_with_extra_flag_bits_on_samples": 5, "vg_decisions": 100, "discrete_decisions": 20, "inputs:cut_right": 15}
    return [f"{k} = {agg.cnt.get(k, 0)} < {v}" for k, v in need.items() if agg.cnt.get(k, 0) < v]
