"""C16 - discretised prior grids hold the right probability masses.

Reference-model monitor on build_prior_grid(): interval masses recomputed with mpmath from
the node's distribution parameters and an independent piecewise integral of 1/(2N(t)).
"""
import mpmath
import numpy as np

import tsdate
from tsdate import prior as tprior
from tsdate.demography import PopulationSizeHistory
from vpkit import common, zoo

ID = "C16"
N = {"quick": 120, "thorough": 3000}
BUDGET = {"quick": 240.0, "thorough": 700.0}
RULE = ("case = (contemporaneous zoo input, integer or explicit timepoints, lognorm/gamma, population "
        "size as number / PopulationSizeHistory / dict with 1-5 epochs); distinct by (topology hash, "
        "grid, distribution, history); non-trivial = >=1 non-sample row compared cell by cell")


def coal_time(t, sizes, breaks):
    """integral_0^t ds / (2 N(s)) for piecewise-constant N; breaks = epoch starts after 0"""
    edges = [0.0] + list(breaks) + [np.inf]
    tot = mpmath.mpf(0)
    for N_, a, b in zip(sizes, edges[:-1], edges[1:]):
        if t <= a:
            break
        tot += (mpmath.mpf(min(t, b)) - mpmath.mpf(a)) / (2 * mpmath.mpf(N_))
    return tot


def cdf(distr, alpha, beta, x):
    if x <= 0:
        return mpmath.mpf(0)
    if distr == "lognorm":
        # erfc keeps relative accuracy in the lower tail (1 + erf loses everything below 10**-dps)
        return mpmath.erfc(-(mpmath.log(x) - alpha) / mpmath.sqrt(2 * beta)) / 2
    return mpmath.gammainc(alpha, 0, beta * x, regularized=True)


def case(ctx, i, rec):
    mpmath.mp.dps = 30
    rng = ctx.rng(i)
    ts, r = zoo.any_input(rng, contemporaneous=True, kinds=["sim", "sim", "handmade", "missing", "inferred"])
    if not common.discrete_ok(ts) or ts.num_nodes > 80:
        ts, r = zoo.sim(rng, n=int(rng.integers(2, 10)))
    if i % 4 in (1, 2):
        # node ids in arbitrary order: samples are not the first ids (subset/union output, hand-built tables)
        ts, _perm = zoo.renumber_all(ts, rng)
        r["all_ids_permuted"] = True
    distr = ["lognorm", "gamma"][i % 2]
    nep = int(rng.choice([1, 1, 2, 3, 5]))
    base = float(10 ** rng.uniform(0, 5))
    sizes = [base * float(10 ** rng.uniform(-1, 1)) for _ in range(nep)]
    breaks = sorted(float(base * 10 ** rng.uniform(-1.5, 1)) for _ in range(nep - 1))
    if len(set(breaks)) < len(breaks):
        breaks = [b * (1 + 0.1 * j) for j, b in enumerate(breaks)]
    form = ["number", "object", "dict"][i % 3] if nep == 1 else ["object", "dict"][i % 2]
    if form == "number":
        ps = sizes[0]
    elif form == "object":
        ps = PopulationSizeHistory(sizes, breaks)
    else:
        ps = {"population_size": sizes, "time_breaks": breaks} if nep > 1 else {"population_size": sizes}
    user_grid = None
    if i % 4 < 2:
        tp_arg = int(rng.integers(2, 30))
    else:
        user_grid = np.concatenate([[0.0], np.sort(np.unique(base * 10 ** rng.uniform(-2, 1.5, size=int(rng.integers(1, 20)))))])
        tp_arg = rng.permutation(user_grid) if rng.random() < 0.3 else user_grid.copy()
    rec.sig = zoo.ts_sig(ts, distr, nep, form, repr(tp_arg)[:50])
    if i < 3:
        rec.sample = dict(recipe=r, distr=distr, sizes=sizes, breaks=breaks, form=form,
                          timepoints=tp_arg if isinstance(tp_arg, int) else tp_arg.tolist())
    try:
        pr = tsdate.build_prior_grid(ts, population_size=ps, timepoints=tp_arg, prior_distribution=distr)
    except Exception as e:
        key = common.exc_key(e)
        if form == "dict":
            rec.violation("history-given-as-dict:" + key[:40], f"population_size given as a dict (documented) raised {key}")
        else:
            rec.violation("build_prior_grid-raised:" + key[:40], f"valid arguments raised {key}")
        return
    rec.count(f"form:{form}")
    if r.get("all_ids_permuted"):
        rec.count("inputs_with_samples_not_first")
    rec.count(f"epochs:{nep}")
    rec.count("grids:int" if user_grid is None else "grids:explicit")
    tp = np.asarray(pr.timepoints, dtype=float)
    if tp[0] != 0 or not np.all(np.diff(tp) > 0):
        rec.violation("timegrid-not-increasing-from-0", f"timepoints {tp[:5]}...")
        return
    if user_grid is not None:
        e = common.rel_err(tp, user_grid) if len(tp) == len(user_grid) else np.inf
        rec.maxi("user_grid_relerr", e if np.isfinite(e) else 1e300)
        if not (e <= 1e-12):
            rec.violation("user-grid-not-kept", f"user gave {user_grid[:4]}..., prior has {tp[:4]}... (rel {e:.3g})")
            return
    issample = common.is_sample(ts)
    nf = set(int(x) for x in pr.nonfixed_nodes)
    want = set(int(x) for x in np.flatnonzero(~issample))
    if nf != want:
        rec.violation("rows-not-exactly-non-samples", f"grid rows for {sorted(nf ^ want)[:5]} differ from the non-sample set")
        return
    if pr.grid_data.shape != (len(want), len(tp)):
        rec.violation("grid-shape", f"{pr.grid_data.shape}")
        return
    mp = tprior.MixturePrior(ts, prior_distribution=distr)
    tc = [coal_time(float(t), sizes, breaks) for t in tp]
    nodes = sorted(want)
    if len(nodes) > 12:
        nodes = [nodes[j] for j in rng.choice(len(nodes), size=12, replace=False)]
    for u in nodes:
        row = np.asarray(pr[u], dtype=float)
        a, b = [float(x) for x in mp.prior_params[u][:2]]
        c = [cdf(distr, a, b, x) for x in tc]
        masses = [mpmath.mpf(0)] + [c[j] - c[j - 1] for j in range(1, len(c))]
        mx = max(masses)
        if mx < mpmath.mpf(10) ** -300:
            rec.count("rows_skipped_no_mass_on_grid")
            continue
        ref = np.array([float(m / mx) for m in masses])
        err = float(np.max(np.abs(row - ref)))
        rec.maxi("row_abs_err", err)
        rec.count("rows_compared")
        rec.nontrivial = True
        if row[0] != 0:
            rec.violation("mass-at-time-zero", f"node {u}: row[0] = {row[0]!r}")
        if abs(np.max(row) - 1) > 1e-12:
            rec.violation("row-max-not-one", f"node {u}: max entry {np.max(row)!r}")
        if not (err <= 1e-8):
            rec.violation("interval-masses-wrong",
                          f"node {u}: row {np.round(row, 6).tolist()[:8]} expected {np.round(ref, 6).tolist()[:8]} (max abs err {err:.3g})", node=u)
            break


def reach(ctx, agg):
    need = {"rows_compared": 200, "inputs_with_samples_not_first": 20, "grids:int": 20, "grids:explicit": 20, "form:object": 10}
    out = [f"{k} = {agg.cnt.get(k, 0)} < {v}" for k, v in need.items() if agg.cnt.get(k, 0) < v]
    multi = sum(v for k, v in agg.cnt.items() if k.startswith("epochs:") and k != "epochs:1")
    if multi < 3:
        out.append(f"only {multi} histories with >=2 epochs")
    return out
