"""C21 - EP message bookkeeping is consistent after every iteration.

Invariant at a hook: a wrapper on ExpectationPropagation.iterate runs after *every* iteration
of every real run and re-adds all messages itself; the compiled _rescale_factors is exercised
on the live state (re-parameterise messages by a random per-node scale, call it, compare).
"""
import numpy as np

import tsdate
from tsdate import variational
from vpkit import common, zoo

ID = "C21"
N = {"quick": 260, "thorough": 8000}
BUDGET = {"quick": 240.0, "thorough": 700.0}
RULE = ("case = (zoo input incl. diploid unphased, historical / internal samples, a 300-child star that "
        "forces mid-iteration rescaling; max_shape 1.5..1e6, 1..40 iterations, regularisation on/off); "
        "distinct by (topology hash, options); non-trivial = >=1 iteration-end event judged")

_st = {}
_orig_iterate = variational.ExpectationPropagation.iterate
_orig_rescale = variational._rescale_factors


def assemble(ep):
    f = ep.factors
    n = ep.node_posterior.shape[0]
    tot = np.zeros((n, 2))
    mag = np.zeros((n, 2))
    edge = np.asarray(f.edge)
    block = np.asarray(f.block)
    node = np.asarray(f.node)
    for arr, idx_root, idx_leaf in ((edge, ep.edge_parents, ep.edge_children),
                                    (block, ep.block_nodes[0], ep.block_nodes[1])):
        if arr.shape[0]:
            np.add.at(tot, idx_root, arr[:, 0])
            np.add.at(tot, idx_leaf, arr[:, 1])
            np.add.at(mag, idx_root, np.abs(arr[:, 0]))
            np.add.at(mag, idx_leaf, np.abs(arr[:, 1]))
    tot += node[:, 0] + node[:, 1]
    mag += np.abs(node[:, 0]) + np.abs(node[:, 1])
    return tot, mag


def assemble_scaled(ep):
    """mid-iteration form of the invariant: every message counts times its node's running scale"""
    f = ep.factors
    n = ep.node_posterior.shape[0]
    sc = np.asarray(f.scale)
    tot = np.zeros((n, 2))
    mag = np.zeros((n, 2))
    for arr, ir, il in ((np.asarray(f.edge), ep.edge_parents, ep.edge_children),
                        (np.asarray(f.block), ep.block_nodes[0], ep.block_nodes[1])):
        if arr.shape[0]:
            np.add.at(tot, ir, arr[:, 0] * sc[ir, None])
            np.add.at(tot, il, arr[:, 1] * sc[il, None])
            np.add.at(mag, ir, np.abs(arr[:, 0]) * sc[ir, None])
            np.add.at(mag, il, np.abs(arr[:, 1]) * sc[il, None])
    node = np.asarray(f.node)
    tot += (node[:, 0] + node[:, 1]) * sc[:, None]
    mag += (np.abs(node[:, 0]) + np.abs(node[:, 1])) * sc[:, None]
    return tot, mag


def _iterate(self, *a, **k):
    try:
        r = _orig_iterate(self, *a, **k)
    except BaseException as e:  # noqa
        # the iteration died half-way: judge the bookkeeping as it stands (messages x running scale)
        st = _st.setdefault("s", {"n": 0, "viol": [], "max_res": 0.0, "rescale_tests": 0, "max_rescale_dev": 0.0})
        st["aborted"] = type(e).__name__
        try:
            tot, mag = assemble_scaled(self)
            post = np.asarray(self.node_posterior)
            res = np.abs(tot - post)
            bound = 1e-9 * np.maximum(mag, 1e-300) + 1e-300
            bound[:, 0] += 1e-12
            if np.any(res > bound) or not np.all(np.isfinite(tot)):
                j = int(np.unravel_index(np.nanargmax(res / np.maximum(mag, 1e-300)), res.shape)[0])
                st["viol"].append(("messages-do-not-sum-to-posterior:when-iteration-aborted",
                                   f"iteration {st['n'] + 1} raised {type(e).__name__}; at that moment messages x scale to node {j} "
                                   f"sum to {tot[j].tolist()} but its posterior is {post[j].tolist()}"))
        except Exception:
            pass
        raise
    st = _st.setdefault("s", {"n": 0, "viol": [], "max_res": 0.0, "rescale_tests": 0, "max_rescale_dev": 0.0})
    st["n"] += 1
    scale = np.asarray(self.factors.scale)
    if not np.all(scale == 1.0) and len(st["viol"]) < 3:
        st["viol"].append(("scale-not-reset", f"iteration {st['n']}: factors.scale not all 1 at iteration end (min {scale.min()!r})"))
    tot, mag = assemble(self)
    post = np.asarray(self.node_posterior)
    res = np.abs(tot - post)
    bound = 1e-9 * np.maximum(mag, 1e-300)
    # the first natural parameter is shape - 1: 1e-12 absolute there is 1e-12 relative in the shape
    # (messages that cancel to exactly 0 leave residues like 2e-32 in one factor)
    bound[:, 0] += 1e-12
    rel = float(np.max(res / np.maximum(mag, 1e-300))) if res.size else 0.0
    st["max_res"] = max(st["max_res"], rel)
    if np.any(res > bound) and len(st["viol"]) < 3:
        j = int(np.unravel_index(np.argmax(res / np.maximum(mag, 1e-300)), res.shape)[0])
        st["viol"].append(("messages-do-not-sum-to-posterior",
                           f"iteration {st['n']}: sum of messages to node {j} is {tot[j].tolist()} but its posterior is {post[j].tolist()}"))
    fixed = self.node_constraints[:, 0] == self.node_constraints[:, 1]
    if np.any(post[fixed] != 0) and len(st["viol"]) < 3:
        st["viol"].append(("fixed-node-has-posterior", f"iteration {st['n']}: a sample node's posterior row is non-zero"))
    mn, va = self.node_moments()
    if (np.any(mn[fixed] != self.node_constraints[fixed, 0]) or np.any(va[fixed] != 0)) and len(st["viol"]) < 3:
        st["viol"].append(("sample-time-changed-by-posterior", f"iteration {st['n']}: node_moments() at a sample differs from its time"))
    # exercise the compiled _rescale_factors on the live state: messages*scale must not change
    if st["n"] % 3 == 1:
        rng = np.random.default_rng(st["n"] + len(scale))
        s = 10 ** rng.uniform(-3, 0, size=scale.size)
        f = self.factors
        before, _ = assemble(self)
        f.edge[:, 0] /= s[self.edge_parents, None]
        f.edge[:, 1] /= s[self.edge_children, None]
        if f.block.shape[0]:
            f.block[:, 0] /= s[self.block_nodes[0], None]
            f.block[:, 1] /= s[self.block_nodes[1], None]
        f.node[:, 0] /= s[:, None]
        f.node[:, 1] /= s[:, None]
        f.scale[:] = s
        variational._rescale_factors(f)
        after, mag2 = assemble(self)
        dev = float(np.max(np.abs(after - before) / np.maximum(mag2, 1e-300))) if before.size else 0.0
        st["rescale_tests"] += 1
        st["max_rescale_dev"] = max(st["max_rescale_dev"], dev)
        if (dev > 1e-12 or not np.all(np.asarray(f.scale) == 1.0)) and len(st["viol"]) < 3:
            st["viol"].append(("rescale_factors-changes-messages",
                               f"iteration {st['n']}: re-parameterising by a per-node scale and calling _rescale_factors changed message sums by {dev:.3g}"))
    return r


variational.ExpectationPropagation.iterate = _iterate


def big_star(rng):
    n = 300
    ts, r = zoo.handmade_tree(rng, n_leaves=n, shape="star", L=1.0, muts={c: 50 for c in range(n)})
    r["gen"] = "star300x50"
    return ts, r


def case(ctx, i, rec):
    rng = ctx.rng(i)
    if i == 0:
        ts, r = big_star(rng)
    elif i % 4 == 1:
        ts, r = zoo.sim(rng, ploidy=2, n=int(rng.integers(2, 8)), mut_per_edge=float(rng.choice([3.0, 30.0, 300.0])))
    else:
        ts, r = zoo.any_input(rng)
    kw = {"mutation_rate": common.default_mu(ts, r)}
    kw["max_shape"] = float(rng.choice([1.5, 2.0, 10.0, 100.0, 1000.0, 1e6]))
    kw["max_iterations"] = int(rng.choice([1, 3, 10, 25, 40]))
    kw["rescaling_intervals"] = int(rng.choice([0, 0, 5]))
    if rng.random() < 0.4:
        kw["regularise_roots"] = False
    if i == 0:
        kw.update(max_shape=2.0, max_iterations=3, rescaling_intervals=0)
    unphased = False
    if ts.num_individuals and common.can_unphase(ts) and rng.random() < 0.8:
        kw["singletons_phased"] = False
        unphased = True
    _st.clear()
    res, exc = common.call(tsdate.variational_gamma, ts, **kw)
    rec.sig = zoo.ts_sig(ts, tuple(sorted((k, repr(v)) for k, v in kw.items() if k != "mutation_rate")))
    if i < 3:
        rec.sample = dict(recipe=r, kw={k: repr(v) for k, v in kw.items()})
    st = _st.get("s")
    if st and st.get("aborted"):
        rec.count("iterations_aborted_by_exception")
        for key, msg in st["viol"]:
            rec.violation(key, msg)
    if st and st["n"]:
        rec.nontrivial = True
        rec.count("iteration_end_events", st["n"])
        rec.count("rescale_factors_tests", st["rescale_tests"])
        rec.maxi("max_residual_over_sum_abs_messages", st["max_res"])
        rec.maxi("max_rescale_factors_dev", st["max_rescale_dev"])
        for key, msg in st["viol"]:
            rec.violation(key, msg + f" [singletons_phased={not unphased}, max_shape={kw['max_shape']}]")
        if unphased:
            rec.count("runs_with_unphased_blocks")
        if kw.get("regularise_roots") is False:
            rec.count("runs_without_regularisation")
        if not common.contemporaneous(ts) or not common.samples_are_leaves(ts):
            rec.count("runs_with_historical_or_internal_samples")
    if exc is not None:
        rec.count("no_return")
        rec.count("no_return:" + common.exc_key(exc)[:60])


def reach(ctx, agg):
    need = {"iteration_end_events": 2000, "rescale_factors_tests": 500, "runs_with_unphased_blocks": 20,
            "runs_without_regularisation": 20, "runs_with_historical_or_internal_samples": 10}
    return [f"{k} = {agg.cnt.get(k, 0)} < {v}" for k, v in need.items() if agg.cnt.get(k, 0) < v]
