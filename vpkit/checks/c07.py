"""C07 - rescaling genome coordinates and mutation rate together leaves dates unchanged.

Two-run relation monitor: base vs (coordinates * c, mutation_rate / c). Powers of two to
1e-12 (measured bit-exact), general c to 1e-6 with the observed near-tie mechanism rule.
"""
import numpy as np

import tsdate
from vpkit import common, pairs, zoo

ID = "C07"
N = {"quick": 130, "thorough": 5000}
BUDGET = {"quick": 240.0, "thorough": 700.0}
RULE = ("case = (zoo input, mostly multi-tree, method, option set, one power-of-two and one "
        "general coordinate factor c); distinct by (topology hash, method, options, factors); "
        "non-trivial = base and both scaled runs returned and all outputs were compared")

GENERAL = [1e-3, 0.37, 7.0, 1e4, 3.3, 0.0123, 1e-6, 2.5e5]


def build(ctx, i):
    rng = ctx.rng(i)
    method = common.METHODS[i % 3]
    if method == "variational_gamma":
        ts, r = zoo.any_input(rng, kinds=["sim", "sim", "sim", "historical", "inferred", "missing",
                                         "rootmut", "internal_sample", "recurrent", "handmade"])
    else:
        ts, r = zoo.any_input(rng, contemporaneous=True,
                              kinds=["sim", "sim", "sim", "inferred", "missing", "recurrent", "handmade"])
        if not common.discrete_ok(ts):
            ts, r = zoo.sim(rng)
    if i % 4 == 0 and ts.num_trees < 3:
        ts, r = zoo.sim(rng, n=int(rng.integers(4, 12)), rec=None, L=1e4)
    force_unphased = False
    if method == "variational_gamma" and i % 9 == 3:
        # diploid individuals whose singletons were all filtered out (blocks with zero mutations)
        ts, r = zoo.sim(rng, n=int(rng.integers(3, 8)), ploidy=2, L=1e4, mut_per_edge=3.0)
        ts = zoo.drop_singletons(ts)
        r["gen"] = "diploid_no_singletons"
        force_unphased = ts.num_mutations > 0
        if not force_unphased:
            ts, r = zoo.sim(rng, ploidy=2)
    unary = False
    if i % 8 == 5:
        # an input that keeps unary nodes, dated with allow_unary=True (second pass of the span tables)
        full, r2 = zoo.sim(rng, n=int(rng.integers(6, 14)), L=1e3, mut_per_edge=3.0,
                           rec=float(rng.choice([4.0, 12.0])) / (4 * 100.0 * 1e3), Ne=100.0)
        sub = np.sort(rng.choice(full.samples(), size=max(2, full.num_samples // 2), replace=False))
        cand = full.simplify(sub, keep_unary=True)
        if cand.num_mutations > 0:
            ts, r, unary = cand, dict(r2, gen="kept_unary"), True
        if (i // 8) % 2 == 0:
            # a chain of unary nodes below a unary root that coalesces elsewhere (spans are lent)
            cand, r2 = zoo.unary_chain(rng)
            if cand.num_mutations > 0:
                ts, r, unary = cand, r2, True
    kw = {"mutation_rate": common.default_mu(ts, r)}
    if unary:
        kw["allow_unary"] = True
    extra = {}
    if method == "variational_gamma":
        kw.update(common.vg_kwargs(rng))
        if ts.num_individuals and common.can_unphase(ts) and (force_unphased or rng.random() < 0.4):
            kw["singletons_phased"] = False
    else:
        Ne = r.get("Ne", 100.0)
        kw["probability_space"] = str(rng.choice(["linear", "logarithmic"]))
        mode = 0 if unary else int(rng.integers(3))
        if mode == 0:
            kw["population_size"] = Ne
        else:
            extra["Ne"] = Ne
            extra["distr"] = str(rng.choice(["lognorm", "gamma"]))
            extra["grid"] = int(rng.integers(3, 25)) if mode == 1 else np.concatenate(
                [[0.0], np.sort(np.unique(10 ** rng.uniform(-1, 1.5, size=int(rng.integers(2, 15))))) * Ne])
    return ts, r, method, kw, extra, rng


def scaled_call(ts, method, kw, extra, c):
    k = dict(kw)
    k["mutation_rate"] = kw["mutation_rate"] / c
    tsc = ts if c == 1.0 else zoo.rescale_genome(ts, c)
    if method != "variational_gamma" and extra:
        k["priors"] = tsdate.build_prior_grid(tsc, population_size=extra["Ne"], timepoints=extra["grid"],
                                              prior_distribution=extra["distr"])
    return tsc, k


def case(ctx, i, rec):
    ts, r, method, kw, extra, rng = build(ctx, i)
    k2 = int(rng.integers(-30, 31))
    cs = [(2.0 ** k2, 1e-12, "pow2"), (float(GENERAL[int(rng.integers(len(GENERAL)))]), 1e-6, "general")]
    base_ts, base_kw = scaled_call(ts, method, kw, extra, 1.0)
    a = pairs.run(base_ts, method, base_kw)
    rec.sig = zoo.ts_sig(ts, method, tuple(sorted((k, repr(v)) for k, v in kw.items() if k != "mutation_rate")),
                         k2, cs[1][0], repr(extra.get("grid", None))[:40])
    if i < 3:
        rec.sample = dict(recipe=r, method=method, kw={k: repr(v) for k, v in kw.items()},
                          factors=[cs[0][0], cs[1][0]])
    if kw.get("allow_unary"):
        rec.count("inputs_with_unary_nodes")
    if a.exc is not None:
        rec.count("base_no_return")
        rec.count("no_return:" + common.exc_key(a.exc)[:70])
        return
    if ts.num_trees >= 3:
        rec.count("inputs_with_3plus_trees")
    if r.get("gen") == "diploid_no_singletons" and kw.get("singletons_phased") is False:
        rec.count("unphased_inputs_without_singletons")
    done = 0
    for c, rtol, label in cs:
        tsc, kc = scaled_call(ts, method, kw, extra, c)
        b = pairs.run(tsc, method, kc)
        if b.exc is not None and "fewer rescaling intervals" in str(b.exc) and label == "general" \
                and pairs.near_tie_evidence(a, b):
            # the rescaling step refuses breakpoints that tie after rounding: same observed mechanism
            rec.violation("near-tie-in-rescaling-step",
                          f"c={c!r}: base run returned, scaled run refused the rescaling ({b.exc}); observed {pairs.near_tie_evidence(a, b)[:2]}", c=c)
            continue
        if b.exc is not None:
            rec.violation(f"{method}:scaled-run-raised:{label}",
                          f"base run returned but c={c!r} raised {common.exc_key(b.exc)}", c=c)
            continue
        devs = pairs.compare(rec, a, b, ct=1.0, rtol=rtol, label=f"{method}:{label}")
        # variances are the least well conditioned output (quantile matching + Newton at sqrt(eps));
        # at general factors they get 1e-4, everything else 1e-6 (measured noise on 150-tree inputs:
        # 2.4e-8 on means, 3.7e-6 on variances)
        if label == "general":
            devs = {k_: (v_ / 100.0 if k_.endswith("_vr") else v_) for k_, v_ in devs.items()}
        worst = max(devs.values())
        rec.count(f"pairs:{method}:{label}")
        rec.count(f"binade:{int(np.floor(np.log2(c)))//10*10}")
        if not (worst <= rtol):
            which = max(devs, key=devs.get)
            if method == "variational_gamma" and label == "general":
                ev = pairs.near_tie_evidence(a, b)
                if ev:
                    rec.violation("near-tie-in-rescaling-step",
                                  f"c={c!r}: {which} deviates by {worst:.3g}; observed {ev[:2]}", c=c, dev=worst)
                    continue
            if not np.array_equal(a.mut_nodes, b.mut_nodes):
                which += "(mutation nodes differ)"
            rec.violation(f"{method}:{label}:dates-changed",
                          f"c={c!r}: {which} deviates by {worst:.3g} (> {rtol})", c=c, dev=worst)
        done += 1
    if done == 2:
        rec.nontrivial = True


def reach(ctx, agg):
    need = {"inputs_with_3plus_trees": 30, "unphased_inputs_without_singletons": 2}
    for m in common.METHODS:
        need[f"pairs:{m}:pow2"] = 8
        need[f"pairs:{m}:general"] = 8
    out = [f"{k} = {agg.cnt.get(k, 0)} < {v}" for k, v in need.items() if agg.cnt.get(k, 0) < v]
    nb = len([k for k in agg.cnt if k.startswith("binade:")])
    if nb < 5:
        out.append(f"coordinate factors spanned only {nb} decades-of-binades (< 5)")
    return out
