"""C15 - node span tables behind the mixture prior are exact.

Reference-model monitor: one naive pass over ts.trees() tallies, per non-sample node, the
genomic length over which it has (T samples in the local tree, k samples below it); compared
with SpansBySamples and with the mixture moments stored by MixturePrior.
"""
import collections

import numpy as np
import tskit

from tsdate import prior as tprior
from vpkit import common, zoo

ID = "C15"
N = {"quick": 150, "thorough": 4000}
BUDGET = {"quick": 240.0, "thorough": 700.0}
RULE = ("case = simplified single-rooted input (simulated, tsinfer-inferred with polytomies, with "
        "samples isolated over random intervals); distinct by topology hash; non-trivial = >=2 trees "
        "or >=2 distinct total-sample counts T; every (node,T,k) cell and every node's mixture "
        "moments are compared")


def naive(ts):
    spans = collections.defaultdict(lambda: collections.defaultdict(float))
    node_span = np.zeros(ts.num_nodes)
    issample = common.is_sample(ts)
    ok = True
    Ts = set()
    for tree in ts.trees():
        has_parent = [s for s in ts.samples() if tree.parent(s) != tskit.NULL]
        T = len(has_parent)
        roots_with_children = [r for r in tree.roots if tree.num_children(r) > 0]
        if len(roots_with_children) > 1:
            ok = False
        if T:
            Ts.add(T)
        for u in tree.nodes():
            nc = tree.num_children(u)
            if issample[u]:
                if tree.parent(u) != tskit.NULL or nc > 0:
                    node_span[u] += tree.span
                continue
            if nc == 1:
                ok = False
            if nc >= 2:
                k = tree.num_samples(u)
                spans[u][(T, k)] += tree.span
                node_span[u] += tree.span
    return spans, node_span, ok, Ts


def case(ctx, i, rec):
    rng = ctx.rng(i)
    kind = ["sim", "inferred", "missing", "inferred_missing", "handmade", "sim", "mirrored"][i % 7]
    try:
        if kind == "sim":
            ts, r = zoo.sim(rng, n=int(rng.integers(3, 14)), L=1e4)
        elif kind == "inferred":
            ts, r = zoo.inferred(rng)
        elif kind == "mirrored":
            # identical (samples below, span) records under different numbers of samples in the tree
            ts, r = zoo.mirrored_blocks(rng)
        elif kind == "missing":
            ts, r = zoo.sim(rng, n=int(rng.integers(4, 14)), L=1e4)
            ts, _ = zoo.with_missing(ts, rng, frac=0.4)
        elif kind == "inferred_missing":
            ts, r = zoo.inferred(rng)
            ts, _ = zoo.with_missing(ts, rng, frac=0.3)
        else:
            ts, r = zoo.handmade_tree(rng)
    except Exception:
        ts, r = zoo.sim(rng)
        kind = "sim"
    r["gen"] = kind
    if not common.discrete_ok(ts) or ts.num_edges == 0:
        rec.count("skipped_not_contemporaneous")
        return
    ref, ref_span, in_domain, Ts = naive(ts)
    used = np.zeros(ts.num_nodes, dtype=bool)
    used[ts.edges_parent] = True
    used[ts.edges_child] = True
    if not in_domain or not np.all(used):
        rec.count("skipped_out_of_domain(multiroot/unary/unused nodes)")
        return
    rec.sig = zoo.ts_sig(ts)
    if i < 3:
        rec.sample = dict(recipe=r, trees=ts.num_trees, nodes=ts.num_nodes, distinct_T=sorted(Ts))
    try:
        sbs = tprior.SpansBySamples(ts)
    except Exception as e:
        rec.violation("SpansBySamples-raised:" + common.exc_key(e)[:50], f"in-domain input raised {common.exc_key(e)}")
        return
    rec.count("inputs")
    rec.count(f"inputs:{kind}")
    if len(Ts) >= 2:
        rec.count("inputs_with_2plus_distinct_T")
    if ts.num_trees >= 2 or len(Ts) >= 2:
        rec.nontrivial = True
    if np.any(np.bincount(ts.edges_parent, minlength=ts.num_nodes) > 2):
        rec.count("inputs_with_polytomy_like_nodes")
    issample = common.is_sample(ts)
    for u in range(ts.num_nodes):
        if issample[u]:
            continue
        got = {}
        try:
            sp = sbs.get_spans(u)
        except Exception as e:
            rec.violation("get_spans-raised", f"node {u}: {e!r}")
            continue
        for T, arr in sp.items():
            for k, v in zip(arr["descendant_tips"], arr["span"]):
                got[(int(T), int(k))] = got.get((int(T), int(k)), 0.0) + float(v)
        want = {k: v for k, v in ref[u].items()}
        keys = set(got) | set(want)
        for key in keys:
            g, w = got.get(key, 0.0), want.get(key, 0.0)
            rec.count("cells_compared")
            if abs(g - w) > 1e-9 * max(abs(w), abs(g), 1e-300):
                rec.violation("span-cell-wrong",
                              f"node {u} (T,k)={key}: SpansBySamples {g!r}, direct tally {w!r}", node=u)
                break
        tot = sum(got.values())
        if abs(tot - ref_span[u]) > 1e-9 * max(ref_span[u], 1e-300) or abs(sbs.node_spans[u] - ref_span[u]) > 1e-9 * max(ref_span[u], 1e-300):
            rec.violation("node-span-total-wrong",
                          f"node {u}: cells sum to {tot!r}, node_spans {sbs.node_spans[u]!r}, direct {ref_span[u]!r}", node=u)
    # mixture moments
    for distr in ("lognorm", "gamma"):
        try:
            mp = tprior.MixturePrior(ts, prior_distribution=distr)
        except Exception as e:
            rec.violation("MixturePrior-raised:" + common.exc_key(e)[:50], f"in-domain input raised {common.exc_key(e)}")
            continue
        base = {}
        for T in Ts:
            c = tprior.ConditionalCoalescentTimes(None, distr)
            c.add(T)
            base[T] = c[T]
        for u in range(ts.num_nodes):
            if issample[u]:
                continue
            w = np.array([v for v in ref[u].values()])
            mk = np.array([base[T][k][2] for (T, k) in ref[u]])
            vk = np.array([base[T][k][3] for (T, k) in ref[u]])
            mean = np.sum(w * mk) / np.sum(w)
            var = np.sum(w * (vk + mk ** 2)) / np.sum(w) - mean ** 2
            a, b = [float(x) for x in mp.prior_params[u][:2]]
            if distr == "lognorm":
                gm = np.exp(a + b / 2)
                gv = (np.exp(b) - 1) * gm ** 2
            else:
                gm, gv = a / b, a / b ** 2
            e = max(abs(gm - mean) / mean, abs(gv - var) / var)
            rec.maxi(f"mixture_relerr:{distr}", e)
            rec.count("mixture_nodes_compared")
            if not (e <= 1e-8):
                rec.violation(f"mixture-moments-wrong:{distr}",
                              f"node {u}: prior has mean/var ({gm!r},{gv!r}), span-weighted mixture gives ({mean!r},{var!r})", node=u)
                break


def reach(ctx, agg):
    need = {"inputs": 60, "inputs_with_2plus_distinct_T": 20, "cells_compared": 1000,
            "inputs_with_polytomy_like_nodes": 10, "mixture_nodes_compared": 500, "inputs:mirrored": 8}
    return [f"{k} = {agg.cnt.get(k, 0)} < {v}" for k, v in need.items() if agg.cnt.get(k, 0) < v]
