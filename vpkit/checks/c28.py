"""C28 - preprocessing removes only data-free regions and preserves genotypes.

Postcondition / reference monitor on every return of preprocess_ts().
"""
import numpy as np
import tskit

import tsdate
from vpkit import common, zoo
from vpkit.checks.c29 import pieces

ID = "C28"
N = {"quick": 170, "thorough": 4000}
BUDGET = {"quick": 240.0, "thorough": 700.0}
RULE = ("case = (simulated or inferred input whose sites leave flanks and deserts, optionally unsimplified "
        "or with mutations above roots; minimum_gap 1/10/100/1e6/None, erase_flanks, user delete_intervals, "
        "split_disjoint, filter flags); distinct by (topology hash, options); non-trivial = some topology "
        "was removed or some node was split")


def thin_sites(ts, rng):
    """keep sites only in a few clusters so that flanks and inter-site gaps exist"""
    t = ts.dump_tables()
    L = ts.sequence_length
    k = int(rng.integers(1, 4))
    centres = np.sort(rng.uniform(0.1 * L, 0.9 * L, size=k))
    width = L * float(rng.choice([0.02, 0.05, 0.15]))
    pos = ts.sites_position
    keep = np.zeros(ts.num_sites, dtype=bool)
    for c in centres:
        keep |= np.abs(pos - c) <= width
    if keep.sum() == 0:
        keep[:] = True
    t.delete_sites(np.flatnonzero(~keep).astype(np.int32))
    return t.tree_sequence()


def topo_intervals(ts):
    """maximal intervals on which the tree sequence has at least one edge"""
    ivs = sorted(zip(ts.edges_left.tolist(), ts.edges_right.tolist()))
    out = []
    for a, b in ivs:
        if out and a <= out[-1][1]:
            out[-1][1] = max(out[-1][1], b)
        else:
            out.append([a, b])
    return out


def subtract(A, B):
    """A minus B for sorted disjoint interval lists"""
    out = []
    for a, b in A:
        cur = a
        for c, d in B:
            if d <= cur or c >= b:
                continue
            if c > cur:
                out.append([cur, c])
            cur = max(cur, d)
        if cur < b:
            out.append([cur, b])
    return out


def case(ctx, i, rec):
    rng = ctx.rng(i)
    L = float(rng.choice([1e3, 1e4, 3e6]))
    ts, r = zoo.sim(rng, n=int(rng.integers(3, 12)), L=L, mut_per_edge=float(rng.choice([2.0, 6.0])),
                    rec=float(rng.choice([2.0, 10.0])) / (4 * 100.0 * L), Ne=100.0)
    if i % 7 == 6:
        try:
            ts, r = zoo.inferred(rng, L=L)
        except Exception:
            pass
    ts = zoo.strip_mutation_times(ts)
    if i % 3 != 2:
        ts = thin_sites(ts, rng)
    if i % 4 == 1:
        ts, k = zoo.add_root_mutations(ts, rng, k=int(rng.integers(1, 6)))
        r["rootmuts"] = k
    if ts.num_sites == 0:
        rec.count("skipped_no_sites")
        return
    if i % 3 == 0:
        # sites without mutations and unreferenced individual / population rows: what the three
        # filter_* flags (and only they) are allowed to remove
        ts, nmono = zoo.add_monomorphic_sites(ts, rng, k=int(rng.integers(1, 5)))
        t = ts.dump_tables()
        try:
            t.individuals.add_row(flags=0)
            if t.populations.metadata_schema.schema is None:
                t.populations.add_row()
            else:
                t.populations.add_row(metadata={"name": "unused", "description": "no node refers to it"})
            ts = t.tree_sequence()
            rec.count("inputs_with_unreferenced_rows")
        except Exception:
            rec.count("unreferenced_rows_not_added")
        if nmono:
            rec.count("inputs_with_monomorphic_sites")
    kw = {}
    user = None
    mode = i % 5
    if mode == 4:
        a, b = sorted(rng.integers(1, int(L) - 1, size=2))
        c = int(rng.integers(int(b), int(L)))
        user = [[int(a), int(b)]] + ([[c, int(L)]] if c > b and rng.random() < 0.5 else [])
        user = [iv for iv in user if iv[1] > iv[0]]
        if not user:
            user = [[1, 2]]
        kw["delete_intervals"] = user
    else:
        mg = [None, 1, 10, 100, 1e6][int(rng.integers(5))]
        if mg is not None:
            kw["minimum_gap"] = mg * (L / 1e3 if mg in (10, 100) else 1)
        ef = [None, True, False][int(rng.integers(3))]
        if ef is not None:
            kw["erase_flanks"] = ef
    sd = [None, True, False][int(rng.integers(3))]
    if sd is not None:
        kw["split_disjoint"] = sd
    for flag in ("filter_populations", "filter_individuals", "filter_sites"):
        if rng.random() < 0.3:
            kw[flag] = True
    rec.sig = zoo.ts_sig(ts, tuple(sorted((k, repr(v)) for k, v in kw.items())))
    if i < 3:
        rec.sample = dict(recipe=r, kw={k: repr(v) for k, v in kw.items()}, sites=ts.num_sites)
    try:
        out = tsdate.preprocess_ts(ts, **kw)
    except Exception as e:
        rec.violation("preprocess_ts-raised:" + common.exc_key(e)[:60], f"valid input raised {common.exc_key(e)} with {kw}")
        return
    rec.count("returned")
    v = rec.violation
    pos_in, pos_out = ts.sites_position, out.sites_position
    filt = kw.get("filter_sites", False)
    # ---- sites
    if user is None:
        must_keep = pos_in
    else:
        inside = np.zeros(len(pos_in), dtype=bool)
        for a, b in user:
            inside |= (pos_in >= a) & (pos_in < b)
        must_keep = pos_in[~inside]
    if not filt:
        if not np.all(np.isin(must_keep, pos_out)):
            v("site-lost", f"{int(np.sum(~np.isin(must_keep, pos_out)))} site(s) outside the deleted intervals disappeared")
    # ---- the filter_* flags remove unreferenced rows of their own table and nothing else
    if filt:
        if out.num_sites and np.any(np.bincount(out.mutations_site, minlength=out.num_sites) == 0):
            v("filter_sites-left-a-site-without-mutations", "filter_sites=True but a mutation-free site remains")
        rec.count("filter_sites_runs")
    for flag, n_in, n_out, refs in (
            ("filter_individuals", ts.num_individuals, out.num_individuals, out.nodes_individual),
            ("filter_populations", ts.num_populations, out.num_populations, out.nodes_population)):
        if kw.get(flag, False):
            used = np.unique(refs[refs >= 0])
            if n_out != len(used):
                v(f"{flag}-left-unreferenced-rows", f"{flag}=True: {n_out} rows remain, {len(used)} are referenced by nodes")
            rec.count(f"{flag}_runs")
        elif n_out != n_in:
            v(f"{flag}-off-but-rows-removed", f"{flag} not requested: {n_in} rows in, {n_out} rows out")
    # ---- samples
    if not np.array_equal(out.nodes_time[out.samples()], ts.nodes_time[ts.samples()]) or out.num_samples != ts.num_samples:
        v("samples-changed", "sample count, order or times changed")
        return
    # ---- genotypes at kept sites
    common_pos = np.intersect1d(pos_in, pos_out)
    gi = {va.site.position: [va.alleles[g] if g >= 0 else None for g in va.genotypes] for va in ts.variants()}
    go = {va.site.position: [va.alleles[g] if g >= 0 else None for g in va.genotypes] for va in out.variants()}
    for x in common_pos:
        if user is not None and any(a <= x < b for a, b in user):
            continue
        if gi[x] != go[x]:
            v("genotypes-changed", f"site at {x}: {gi[x]} -> {go[x]}")
            break
    rec.count("sites_compared", len(common_pos))
    # ---- removed topology only where allowed
    tin, tout = topo_intervals(ts), topo_intervals(out)
    removed = subtract(tin, tout)
    added = subtract(tout, tin)
    if added:
        v("topology-added", f"output has topology where the input had none: {added[:2]}")
    if removed:
        rec.nontrivial = True
        rec.count("cases_with_removed_topology")
    if user is not None:
        allowed = [list(map(float, iv)) for iv in user]
        left = subtract(removed, allowed)
        if left:
            v("topology-removed-outside-user-intervals", f"removed {left[:2]} not inside {user}")
        still = [iv for iv in subtract(allowed, subtract(allowed, tout))]
        if still:
            v("user-interval-not-cleared", f"topology remains in {still[:2]} although {user} was to be deleted")
    else:
        mg = kw.get("minimum_gap", 1000000)
        ef = kw.get("erase_flanks", True)
        for a, b in removed:
            ok = False
            if ef and b <= pos_in[0] and a >= 0:
                ok = b < pos_in[0] or True
                ok = b <= pos_in[0]
            if ef and a > pos_in[-1]:
                ok = True
            k = np.searchsorted(pos_in, a, side="right") - 1
            if 0 <= k < len(pos_in) - 1 and pos_in[k] < a and b < pos_in[k + 1] + 1e-12 and pos_in[k + 1] - pos_in[k] >= mg:
                ok = ok or (b <= pos_in[k + 1])
            if not ok:
                v("topology-removed-where-there-is-data",
                  f"removed [{a},{b}) is neither inside a flank (erase_flanks={ef}) nor inside a gap >= {mg} between sites")
                break
            # strictly inside: never touches a site
            if np.any((pos_in >= a) & (pos_in < b)):
                v("removed-region-contains-a-site", f"removed [{a},{b}) contains site(s)")
                break
    # ---- clade/time of every output node occurs in the input tree at the same place
    ti = ts.first()
    for to in out.trees():
        if to.num_edges == 0:
            continue
        x = (to.interval.left + to.interval.right) / 2
        ti.seek(x)
        want = set()
        for u in ti.nodes():
            if ti.num_children(u) > 0:
                want.add((frozenset(ti.samples(u)), ti.time(u)))
        for u in to.nodes():
            if to.num_children(u) > 0:
                key = (frozenset(to.samples(u)), to.time(u))
                if key not in want:
                    v("output-clade-not-in-input", f"position {x}: node {u} (time {to.time(u)}) with samples {sorted(key[0])[:6]} has no counterpart in the input tree")
                    break
        rec.count("output_trees_compared")
    # ---- simplified
    try:
        s2 = out.simplify(filter_populations=False, filter_individuals=False, filter_sites=False, filter_nodes=False)
        if s2.num_edges != out.num_edges:
            v("output-not-simplified", f"simplify() changes the number of edges {out.num_edges} -> {s2.num_edges}")
        s3 = out.simplify(filter_populations=False, filter_individuals=False, filter_sites=False)
        if s3.num_nodes != out.num_nodes:
            v("output-has-unreferenced-nodes", f"simplify() removes nodes {out.num_nodes} -> {s3.num_nodes}")
    except Exception as e:
        rec.count("simplify_failed:" + type(e).__name__)
    # ---- contiguity with split_disjoint
    if kw.get("split_disjoint", True):
        op = pieces(out)
        os_ = common.is_sample(out)
        bad = [u for u, pv in op.items() if not os_[u] and len(pv) > 1]
        if bad:
            v("node-ancestry-has-a-gap", f"split_disjoint on, yet node {bad[0]} has pieces {op[bad[0]][:3]}")
        if out.num_nodes > ts.simplify(filter_populations=False, filter_individuals=False, filter_sites=False).num_nodes:
            rec.nontrivial = True
        rec.count("split_disjoint_runs")
        if np.any(out.nodes_flags & tsdate.NODE_SPLIT_BY_PREPROCESS):
            rec.count("runs_where_nodes_were_split")
    if user is not None:
        rec.count("user_interval_runs")


def reach(ctx, agg):
    need = {"returned": 100, "cases_with_removed_topology": 40, "user_interval_runs": 15,
            "runs_where_nodes_were_split": 10, "output_trees_compared": 300}
    return [f"{k} = {agg.cnt.get(k, 0)} < {v}" for k, v in need.items() if agg.cnt.get(k, 0) < v]
