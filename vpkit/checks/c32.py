"""C32 - time metadata writing follows the set_metadata policy.

Postcondition monitor on every return of date(): a decision table written from the
statement decides, per table, between 'untouched', 'untouched + warning', 'mn/vr merged',
'cleared + default schema'; "the schema can encode" is decided by calling
validate_and_encode_row on every row with the values that are really to be written.
A logging handler records the warnings.
"""
import json
import logging

import numpy as np
import tskit

import tsdate
from vpkit import common, pairs, zoo

ID = "C32"
N = {"quick": 200, "thorough": 5000}
BUDGET = {"quick": 240.0, "thorough": 700.0}
RULE = ("case = (node and mutation metadata kind out of none / raw bytes / permissive JSON / restrictive "
        "JSON / required foreign field / struct with and without mn,vr / schema but no bytes / JSON whose "
        "validity depends on row values (late ill-typed row, maximum on mn), set_metadata False/None/True, "
        "method); distinct by (kinds, set_metadata, method, topology hash); non-trivial = the policy "
        "branch was decided for both tables")

KINDS = zoo.META_KINDS + ["late_bad_row", "mn_maximum"]


class Capture(logging.Handler):
    def __init__(self):
        super().__init__(level=logging.WARNING)
        self.records = []

    def emit(self, record):
        self.records.append(record)


def apply_kind(table, kind, rng, mean=None):
    if kind == "late_bad_row":
        table.drop_metadata()
        table.metadata_schema = tskit.MetadataSchema({"codec": "json", "type": "object",
                                                      "properties": {"name": {"type": "string"}}})
        n = table.num_rows
        rows = [json.dumps({"name": f"n{j}"}).encode() for j in range(n)]
        if n > 1:
            rows[int(rng.integers(1, n))] = json.dumps({"name": 7}).encode()   # legacy ill-typed row
        table.packset_metadata(rows)
    elif kind == "mn_maximum":
        table.drop_metadata()
        mx = float(np.nanmedian(mean)) if mean is not None and np.any(np.isfinite(mean)) else 1.0
        table.metadata_schema = tskit.MetadataSchema({"codec": "json", "type": "object",
                                                      "properties": {"mn": {"type": "number", "maximum": mx}}})
    else:
        zoo.set_table_metadata(table, kind, rng)


def can_encode(table, mean, var):
    sch = table.metadata_schema
    if sch.schema is None:
        return False
    try:
        for j in range(table.num_rows):
            md = dict(table[j].metadata) if len(table.metadata) > 0 else {}
            md.update(mn=mean[j], vr=var[j])
            sch.validate_and_encode_row(md)
        return True
    except Exception:
        return False


def raw_rows(table):
    return [bytes(table.metadata[table.metadata_offset[j]:table.metadata_offset[j + 1]]) for j in range(table.num_rows)]


def case(ctx, i, rec):
    rng = ctx.rng(i)
    method = common.METHODS[i % 3]
    ts, r = zoo.sim(rng, n=int(rng.integers(3, 9)), L=1e3, mut_per_edge=float(rng.choice([1.0, 4.0])))
    if i % 5 == 0:
        ts, _ = zoo.add_root_mutations(zoo.strip_mutation_times(ts), rng, k=2)
    kw = {"mutation_rate": common.default_mu(ts, r)}
    if method == "variational_gamma":
        kw["rescaling_intervals"] = 5
    else:
        kw["population_size"] = r.get("Ne", 100.0)
    # the values that will be written (deterministic: dry run without metadata)
    dry = pairs.run(ts, method, dict(kw, set_metadata=False))
    if dry.exc is not None:
        rec.count("dry_run_failed:" + common.exc_key(dry.exc)[:40])
        return
    nk = KINDS[int(rng.integers(len(KINDS)))]
    mk = KINDS[int(rng.integers(len(KINDS)))]
    t = ts.dump_tables()
    apply_kind(t.nodes, nk, rng, dry.node_mn)
    apply_kind(t.mutations, mk, rng, dry.mut_mn)
    tsd = t.tree_sequence()
    sm = [False, None, True][(i // 3) % 3]
    cap = Capture()
    lg = logging.getLogger("tsdate.core")
    logging.disable(logging.NOTSET)
    old_prop, old_level = lg.propagate, lg.level
    lg.propagate = False
    lg.setLevel(logging.INFO)
    lg.addHandler(cap)
    try:
        res, exc = common.date(tsd, method, set_metadata=sm, **kw)
    finally:
        lg.removeHandler(cap)
        lg.propagate, lg.level = old_prop, old_level
        logging.disable(logging.CRITICAL)
    rec.sig = zoo.ts_sig(ts, nk, mk, repr(sm), method)
    if i < 4:
        rec.sample = dict(recipe=r, node_metadata=nk, mutation_metadata=mk, set_metadata=repr(sm), method=method)
    if exc is not None:
        rec.count("no_return")
        rec.count("no_return:" + common.exc_key(exc)[:60])
        return
    rec.nontrivial = True
    rec.count(f"runs:set_metadata={sm}")
    rec.count(f"runs:{method}")
    warn_text = [rc.getMessage() for rc in cap.records if rc.levelno >= logging.WARNING]
    A, B = tsd.dump_tables(), res.dump_tables()
    for name, kind, mean, var in (("nodes", nk, dry.node_mn, dry.node_vr), ("mutations", mk, dry.mut_mn, dry.mut_vr)):
        ta, tb = getattr(A, name), getattr(B, name)
        tname = type(ta).__name__
        warned = any(tname in w for w in warn_text)
        has_values = var is not None and mean is not None
        # rows of the mutation table may be re-sorted within a site (C02 finding): compare as multisets
        ra, rb = sorted(raw_rows(ta)), sorted(raw_rows(tb))
        untouched = (ta.metadata_schema == tb.metadata_schema) and ra == rb
        if sm is False or not has_values:
            branch = "untouched"
        else:
            empty = ta.metadata_schema.schema is None and len(ta.metadata) == 0
            ok = can_encode(ta, mean, var) or empty
            if sm is None:
                branch = "written-merged" if ok else "untouched+warning"
            else:
                branch = "written-merged" if ok else "cleared+default"
        rec.count(f"branch:{name}:{branch}")
        rec.count(f"kind:{kind}")
        if branch == "untouched":
            if not untouched:
                rec.violation(f"{name}:touched-although-nothing-to-write", f"{kind}, set_metadata={sm}, {method}: metadata or schema changed")
            if warned:
                rec.violation(f"{name}:spurious-warning", f"{kind}, set_metadata={sm}, {method}: warned although nothing was to be written")
        elif branch == "untouched+warning":
            if not untouched:
                rec.violation(f"{name}:written-although-schema-cannot-encode", f"{kind}, set_metadata=None, {method}: table changed")
            if not warned:
                rec.violation(f"{name}:no-warning", f"{kind}, set_metadata=None, {method}: metadata not written and no warning logged")
        else:
            try:
                rows = [tb[j].metadata for j in range(tb.num_rows)]
            except Exception as e:
                rec.violation(f"{name}:output-metadata-undecodable", f"{kind}, set_metadata={sm}: {e}")
                continue
            if not all(isinstance(x, dict) and "mn" in x and "vr" in x for x in rows):
                rec.violation(f"{name}:row-without-mn-vr", f"{kind}, set_metadata={sm}, {method}: some row lacks mn/vr")
                continue
            if branch == "written-merged":
                old = [dict(ta[j].metadata) if len(ta.metadata) else {} for j in range(ta.num_rows)]
                strip = lambda d: json.dumps({k: v for k, v in d.items() if k not in ("mn", "vr")}, sort_keys=True, default=str)  # noqa
                if sorted(map(strip, old)) != sorted(map(strip, rows)):
                    rec.violation(f"{name}:other-fields-lost", f"{kind}, set_metadata={sm}, {method}: fields other than mn/vr changed")
                empty = ta.metadata_schema.schema is None
                if not empty and ta.metadata_schema != tb.metadata_schema:
                    rec.violation(f"{name}:schema-replaced-although-compatible", f"{kind}, set_metadata={sm}, {method}")
                if warned:
                    rec.violation(f"{name}:spurious-warning", f"{kind}, set_metadata={sm}, {method}: metadata written but a warning was logged")
            else:
                want_schema = tsdate.schemas.default_node_schema if name == "nodes" else tsdate.schemas.default_mutation_schema
                if tb.metadata_schema != want_schema:
                    rec.violation(f"{name}:default-schema-not-installed", f"{kind}, set_metadata=True, {method}")
                if any(set(x) - {"mn", "vr"} for x in rows):
                    rec.violation(f"{name}:incompatible-metadata-not-cleared", f"{kind}, set_metadata=True, {method}")


def reach(ctx, agg):
    need = {"branch:nodes:untouched": 20, "branch:nodes:untouched+warning": 5, "branch:nodes:written-merged": 10,
            "branch:nodes:cleared+default": 5, "branch:mutations:written-merged": 3,
            "branch:mutations:untouched+warning": 2, "kind:late_bad_row": 10, "kind:mn_maximum": 10, "kind:tsdate_default": 10}
    return [f"{k} = {agg.cnt.get(k, 0)} < {v}" for k, v in need.items() if agg.cnt.get(k, 0) < v]
