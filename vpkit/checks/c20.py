"""C20 - EP is exact in the conjugate (star) case.

Reference-model monitor: closed-form gamma posterior for star forests (every edge joins a
non-sample parent to a sample at time zero) vs the fit returned by variational_gamma without
root regularisation or rescaling.
"""
import numpy as np

import tsdate
from vpkit import common, zoo

ID = "C20"
N = {"quick": 300, "thorough": 10000}
BUDGET = {"quick": 240.0, "thorough": 700.0}
RULE = ("case = (star forest with 1-4 parents, 1-8 intervals, skewed and balanced mutation loads 0..5000, "
        "mutation rate 1e-12..1, max_iterations 1/2/5/25, max_shape 2..1000; every fifth case a 45-200 child proportional star with max_shape 1.01..10 and 1..25 iterations); distinct by (topology+"
        "mutation hash, options); non-trivial = >=2 edges per parent; every parent compared")


def case(ctx, i, rec):
    rng = ctx.rng(i)
    ts, r = zoo.star_forest(rng, max_count=int(rng.choice([5, 50, 500, 5000])))
    if i % 4 == 0:
        # one dominating edge: >= 90 % of the information on a single child edge
        ts, r = zoo.star_forest(rng, n_parents=int(rng.integers(1, 3)), max_intervals=int(rng.choice([1, 3])), max_count=1)
        t = ts.dump_tables()
        e = int(rng.integers(ts.num_edges))
        l, rr, c = ts.edges_left[e], ts.edges_right[e], ts.edges_child[e]
        used = set(ts.sites_position.tolist())
        for x in np.linspace(l, rr, int(rng.choice([24, 60, 200])) + 2)[1:-1]:
            if float(x) not in used:
                s = t.sites.add_row(position=float(x), ancestral_state="0")
                t.mutations.add_row(site=s, node=int(c), derived_state="1")
        t.sort(); t.build_index(); t.compute_mutation_parents()
        ts = t.tree_sequence()
        r["gen"] = "star_forest_dominant_edge"
    if i % 5 == 1:
        # proportional star: one interval, every child edge carries the same number of mutations
        nch = int(rng.integers(2, 9))
        m = int(rng.choice([1, 3, 10, 40]))
        ts, _r = zoo.handmade_tree(rng, n_leaves=nch, shape="star", L=1.0, muts={c: m for c in range(nch)})
        r = dict(_r, gen="proportional_star", per_edge=m)
    mu = float(10 ** rng.uniform(-12, 0))
    ms = float(rng.choice([2.0, 5.0, 20.0, 1000.0, 1000.0]))
    iters = int(rng.choice([1, 2, 5, 25]))
    if i % 5 == 3:
        # wide proportional star under a tight cap: the running message scale of the parent falls
        # below the underflow guard in the middle of a sweep (factors re-absorbed mid-iteration)
        nch = int(rng.choice([45, 80, 120, 200]))
        m = int(rng.choice([1, 10, 50]))
        ts, _r = zoo.handmade_tree(rng, n_leaves=nch, shape="star", L=1.0, muts={c: m for c in range(nch)})
        r = dict(_r, gen="wide_proportional_star", per_edge=m)
        ms = float(rng.choice([1.01, 2.0, 10.0]))
        iters = int(rng.choice([1, 2, 3, 5, 8, 25]))
        rec.count("wide_star_runs")
    kw = dict(mutation_rate=mu, max_iterations=iters, max_shape=ms, regularise_roots=False,
              rescaling_intervals=0, return_fit=True)
    res, exc = common.call(tsdate.variational_gamma, ts, **kw)
    rec.sig = zoo.ts_sig(ts, ms, iters, repr(mu))
    rec.nontrivial = True
    if i < 3:
        rec.sample = dict(recipe=r, kw={k: repr(v) for k, v in kw.items()})
    if exc is not None:
        rec.count("no_return")
        rec.count("no_return:" + common.exc_key(exc)[:60])
        return
    out, fit = res
    muts = np.zeros(ts.num_edges)
    for m in ts.mutations():
        if m.edge >= 0:
            muts[m.edge] += 1
    span = ts.edges_right - ts.edges_left
    post = np.asarray(fit.node_posterior)
    for p in np.unique(ts.edges_parent):
        sel = ts.edges_parent == p
        shape = 1.0 + muts[sel].sum()
        rate = mu * span[sel].sum()
        g_shape, g_rate = post[p, 0] + 1.0, post[p, 1]
        dens = muts[sel] / span[sel]
        proportional = bool(np.allclose(dens, dens[0], rtol=1e-12, atol=0)) if dens.size else True
        if shape <= ms:
            e = max(abs(g_shape - shape) / shape, abs(g_rate - rate) / rate)
            rec.maxi("uncapped_relerr", e)
            rec.count("uncapped_parents")
            if not (e <= 1e-10):
                rec.violation("uncapped-posterior-not-exact",
                              f"parent {p}: posterior gamma({g_shape!r},{g_rate!r}), exact gamma({shape!r},{rate!r}) "
                              f"[max_iterations {iters}, max_shape {ms}, {int(sel.sum())} edges]", parent=int(p))
        else:
            eta = (ms - 1.0) / (shape - 1.0)
            w_shape, w_rate = ms, rate * eta
            es = abs(g_shape - w_shape) / w_shape
            er = abs(g_rate - w_rate) / w_rate
            rec.maxi("capped_shape_relerr", es)
            rec.count("capped_parents")
            if not (es <= 1e-10):
                rec.violation("capped-shape-not-max_shape", f"parent {p}: shape {g_shape!r}, max_shape {ms}", parent=int(p))
            elif not (er <= 1e-10):
                if proportional:
                    rec.violation("capped-rate-wrong-with-proportional-edges",
                                  f"parent {p}: rate {g_rate!r}, expected {w_rate!r}", parent=int(p))
                else:
                    rec.maxi("capped_rate_relerr_nonproportional", er)
                    rec.violation("capped-rate-wrong:cap-active-and-edges-not-proportional",
                                  f"parent {p}: shape capped at {ms}; rate {g_rate!r} but scaling both natural parameters by one "
                                  f"factor gives {w_rate!r} (rel {er:.3g}); child edges have unequal mutation densities", parent=int(p))
            else:
                rec.count("capped_parents_exact")
                if proportional:
                    rec.count("capped_parents_proportional")


def reach(ctx, agg):
    need = {"uncapped_parents": 100, "capped_parents": 100, "capped_parents_proportional": 15, "wide_star_runs": 20}
    return [f"{k} = {agg.cnt.get(k, 0)} < {v}" for k, v in need.items() if agg.cnt.get(k, 0) < v]
