"""C29 - splitting disjoint nodes preserves every local tree.

Reference-model monitor on util.split_disjoint_nodes: the node map is inferred by walking
every sample's path to the root in the input and output trees at every tree midpoint.
"""
import numpy as np
import tskit

import tsdate
from tsdate import util
from vpkit import common, zoo

ID = "C29"
N = {"quick": 170, "thorough": 4000}
BUDGET = {"quick": 240.0, "thorough": 700.0}
RULE = ("case = (recombining simulation / inference with 0-4 deleted interior intervals so that nodes "
        "have up to 5 disjoint pieces, genome lengths 1e3..1e8 with gaps down to 1 base; mutations above split roots, on isolated samples, and sites "
        "beyond the last edge; node metadata none / permissive JSON / struct / raw bytes); distinct by "
        "topology hash; non-trivial = at least one node was split")


def make_input(rng, i):
    # genome lengths up to 1e8 with gaps of a few bases: a gap is a gap whatever the coordinates
    L0 = float(rng.choice([1e3, 1e3, 1e6, 1e8]))
    ts, r = zoo.sim(rng, n=int(rng.integers(3, 12)), L=L0, mut_per_edge=float(rng.choice([1.0, 4.0])),
                    rec=float(rng.choice([2.0, 8.0, 30.0])) / (4 * 100.0 * L0), Ne=100.0)
    if i % 6 == 5:
        try:
            ts, r = zoo.inferred(rng, L=1e3)
        except Exception:
            pass
    t = ts.dump_tables()
    t.mutations.time = np.full(t.mutations.num_rows, tskit.UNKNOWN_TIME)
    k = int(rng.choice([0, 1, 2, 2, 4]))
    L = ts.sequence_length
    ivs = []
    for _ in range(k):
        a, b = sorted(rng.integers(1, int(L) - 1, size=2))
        if L > 1e3 and rng.random() < 0.6:
            a = int(rng.integers(int(L) // 2, int(L) - 300))
            b = a + int(rng.choice([1, 2, 5, 50, 200]))
        if b > a:
            ivs.append([int(a), int(b)])
    ivs.sort()
    merged = []
    for a, b in ivs:
        if merged and a <= merged[-1][1]:
            merged[-1][1] = max(merged[-1][1], b)
        else:
            merged.append([a, b])
    mode = i % 4
    if merged:
        t.delete_intervals(merged, simplify=False, record_provenance=False)
    if mode == 1 and merged:
        # cut at the right end too: sites/mutations beyond the last edge
        t.delete_intervals([[int(L) - int(rng.integers(2, 40)), int(L)]], simplify=False, record_provenance=False)
    ts2 = t.tree_sequence()
    t = ts2.dump_tables()
    used = set(t.sites.position.tolist())
    extra = {"isolated": 0, "root": 0, "beyond": 0}
    if mode in (1, 2) and merged:
        # mutations on samples inside a deleted interval (isolated there)
        for a, b in merged[:2]:
            x = float(a) + 0.5
            if x not in used and x < L:
                used.add(x)
                s = t.sites.add_row(position=x, ancestral_state="0")
                t.mutations.add_row(site=s, node=int(rng.choice(ts.samples())), derived_state="1")
                extra["isolated"] += 1
    if mode == 1:
        x = float(L) - 0.5
        if x not in used:
            used.add(x)
            s = t.sites.add_row(position=x, ancestral_state="0")
            t.mutations.add_row(site=s, node=int(rng.choice(ts.samples())), derived_state="1")
            extra["beyond"] += 1
    if mode in (2, 3):
        # mutations above local roots, in every tree region
        for tree in ts2.trees():
            roots = [rt for rt in tree.roots if tree.num_children(rt) > 0]
            if roots and rng.random() < 0.6:
                x = float(tree.interval.left) + 0.25
                if x not in used:
                    used.add(x)
                    s = t.sites.add_row(position=x, ancestral_state="0")
                    t.mutations.add_row(site=s, node=int(rng.choice(roots)), derived_state="1")
                    extra["root"] += 1
    mdkind = ["none", "permissive", "struct_with", "raw_bytes", "restrictive"][int(rng.integers(5))]
    zoo.set_table_metadata(t.nodes, mdkind, rng)
    if rng.random() < 0.5:
        pop = t.populations.add_row() if t.populations.metadata_schema.schema is None else \
            t.populations.add_row(metadata={"name": "extra", "description": ""})
        pp = t.nodes.population
        pp[:] = pop
        t.nodes.population = pp
    t.sort()
    t.build_index()
    t.compute_mutation_parents()
    r.update(deleted=merged, extra=extra, node_md=mdkind)
    return t.tree_sequence(), r


def pieces(ts):
    """per node: sorted list of maximal intervals over which it is in some edge"""
    iv = {}
    for e in ts.edges():
        for u in (e.parent, e.child):
            iv.setdefault(u, []).append((e.left, e.right))
    out = {}
    for u, lst in iv.items():
        lst.sort()
        m = [list(lst[0])]
        for a, b in lst[1:]:
            if a <= m[-1][1]:
                m[-1][1] = max(m[-1][1], b)
            else:
                m.append([a, b])
        out[u] = m
    return out


def case(ctx, i, rec):
    rng = ctx.rng(i)
    ts, r = make_input(rng, i)
    rec.sig = zoo.ts_sig(ts, r["node_md"])
    if i < 3:
        rec.sample = dict(recipe=r, trees=ts.num_trees, nodes=ts.num_nodes)
    try:
        out = util.split_disjoint_nodes(ts, record_provenance=bool(i % 2))
    except Exception as e:
        cls = "mutation-where-its-node-has-no-edge" if (r["extra"]["isolated"] or r["extra"]["beyond"]) else "other"
        rec.violation(f"split_disjoint_nodes-raised:{cls}:{type(e).__name__}",
                      f"valid input raised {common.exc_key(e)} (extra mutations {r['extra']})")
        return
    rec.count("returned")
    if ts.sequence_length >= 1e6 and any(b - a <= 200 for a, b in r["deleted"]):
        rec.count("inputs_with_narrow_gap_at_large_coordinates")
    for k_, v_ in r["extra"].items():
        if v_:
            rec.count(f"inputs_with_{k_}_mutations")
    inp = pieces(ts)
    issample = common.is_sample(ts)
    nsplit_expected = sum(len(v) - 1 for u, v in inp.items() if not issample[u])
    if out.num_nodes != ts.num_nodes + nsplit_expected:
        rec.violation("wrong-number-of-new-nodes", f"{ts.num_nodes} -> {out.num_nodes}, expected +{nsplit_expected}")
    if nsplit_expected:
        rec.nontrivial = True
        rec.count("inputs_with_split_nodes")
        rec.maxi("max_pieces_of_one_node", max(len(v) for u, v in inp.items() if not issample[u]))
    # contiguity
    outp = pieces(out)
    osample = common.is_sample(out)
    for u, v in outp.items():
        if not osample[u] and len(v) > 1:
            rec.violation("node-still-disjoint", f"output node {u} has pieces {v[:3]}")
            break
    # infer node map from sample paths at tree midpoints
    nmap = {}
    bps = sorted(set(ts.breakpoints(as_array=True).tolist()) | set(out.breakpoints(as_array=True).tolist()))
    ti, to = ts.first(), out.first()
    ok = True
    for a, b in zip(bps[:-1], bps[1:]):
        x = (a + b) / 2
        ti.seek(x)
        to.seek(x)
        for s in ts.samples():
            u, w = int(s), int(s)
            while True:
                pu, pw = ti.parent(u), to.parent(w)
                if (pu == tskit.NULL) != (pw == tskit.NULL):
                    rec.violation("local-tree-changed", f"position {x}: path from sample {s} has different length")
                    ok = False
                    break
                if pu == tskit.NULL:
                    break
                if nmap.setdefault(pw, pu) != pu:
                    rec.violation("node-map-not-single-valued", f"output node {pw} corresponds to input nodes {nmap[pw]} and {pu}")
                    ok = False
                    break
                u, w = pu, pw
            if not ok:
                break
        if not ok:
            break
        rec.count("tree_intervals_compared")
    if not ok:
        return
    for w, u in nmap.items():
        if w < ts.num_nodes and w != u:
            rec.violation("original-id-reused-for-other-node", f"output node {w} (an original id) maps to input node {u}")
            return
    # leftmost piece keeps the id; copies equal the source
    on, inn = out.tables.nodes, ts.tables.nodes
    for w in range(out.num_nodes):
        u = nmap.get(w, w if w < ts.num_nodes else None)
        if u is None:
            rec.violation("new-node-unused", f"new node {w} appears in no tree")
            return
        a, b = on[w], inn[u]
        if a.time != b.time or a.population != b.population or a.individual != b.individual or \
                (a.flags & ~tsdate.NODE_SPLIT_BY_PREPROCESS) != (b.flags & ~tsdate.NODE_SPLIT_BY_PREPROCESS):
            rec.violation("copy-differs-from-source", f"output node {w} vs source {u}: {a} / {b}")
            return
        split = len(inp.get(u, [0])) > 1 and not issample[u]
        if bool(a.flags & tsdate.NODE_SPLIT_BY_PREPROCESS) != split:
            rec.violation("split-flag-wrong", f"output node {w} (source {u}, {len(inp.get(u, [0]))} pieces): flags {a.flags}")
            return
        if w >= ts.num_nodes or split:
            if split and w < ts.num_nodes:
                # leftmost piece
                if outp.get(w) and inp[u][0][0] != outp[w][0][0]:
                    rec.violation("leftmost-piece-lost-its-id", f"node {u}: first piece starts {inp[u][0][0]}, id kept by piece at {outp[w][0][0]}")
                    return
    # unsplit_node_id metadata where the schema can hold it
    sch = ts.table_metadata_schemas.node if hasattr(ts, "table_metadata_schemas") else None
    can_hold = r["node_md"] in ("permissive",)
    if can_hold and nsplit_expected:
        for w in range(out.num_nodes):
            u = nmap.get(w, w)
            if len(inp.get(u, [0])) > 1 and not issample[u]:
                md = out.node(w).metadata
                if not isinstance(md, dict) or md.get("unsplit_node_id") != u:
                    rec.violation("unsplit_node_id-missing", f"output node {w} (source {u}) metadata {md!r}")
                    break
        rec.count("metadata_key_checked")
    # mutations: same site, node maps back, node present at the position when the input's was
    if out.num_mutations != ts.num_mutations or not np.array_equal(out.mutations_site, ts.mutations_site):
        rec.violation("mutation-sites-changed", "mutation rows/sites changed")
    else:
        pos = ts.sites_position[ts.mutations_site]
        # rows of one site may come back in another order (tables.sort(), see the C02 finding):
        # mutations are matched within their site by the source node they map back to
        import collections as _c
        by_site_in, by_site_out = _c.defaultdict(list), _c.defaultdict(list)
        for m in range(ts.num_mutations):
            by_site_in[int(ts.mutations_site[m])].append(int(ts.mutations_node[m]))
            by_site_out[int(out.mutations_site[m])].append(int(nmap.get(int(out.mutations_node[m]), int(out.mutations_node[m]))))
        for s_, nodes_in in by_site_in.items():
            if sorted(nodes_in) != sorted(by_site_out[s_]):
                rec.violation("mutation-moved-to-other-source-node",
                              f"site {s_}: input mutation nodes {sorted(nodes_in)}, output nodes map back to {sorted(by_site_out[s_])}")
                break
        for m in range(ts.num_mutations):
            w = int(out.mutations_node[m])
            u = int(nmap.get(w, w))
            pin = any(a <= pos[m] < b for a, b in inp.get(u, []))
            pout = any(a <= pos[m] < b for a, b in outp.get(w, []))
            if pin and not pout:
                rec.violation("mutation-on-absent-piece", f"mutation {m} at {pos[m]}: output node {w} is not in the tree there (input node {u} was)")
                break
        rec.count("mutations_checked", ts.num_mutations)
    if ts.num_sites:
        try:
            for va, vb in zip(ts.variants(), out.variants()):
                ga = [va.alleles[g] if g >= 0 else None for g in va.genotypes]
                gb = [vb.alleles[g] if g >= 0 else None for g in vb.genotypes]
                if ga != gb:
                    rec.violation("genotypes-changed", f"site {va.site.id} at {va.site.position}: {ga} -> {gb}")
                    break
        except Exception as e:
            rec.count("genotype_comparison_unavailable:" + type(e).__name__)
    # idempotence
    try:
        again = util.split_disjoint_nodes(out, record_provenance=False)
        ta, tb = out.dump_tables(), again.dump_tables()
        ta.provenances.clear()
        tb.provenances.clear()
        if not ta.equals(tb):
            rec.violation("second-application-changes-tables", "split_disjoint_nodes is not idempotent")
        rec.count("idempotence_checked")
    except Exception as e:
        rec.violation("second-application-raised", f"{common.exc_key(e)}")


def reach(ctx, agg):
    need = {"returned": 100, "inputs_with_split_nodes": 60, "inputs_with_root_mutations": 20,
            "tree_intervals_compared": 1000, "idempotence_checked": 100,
            "inputs_with_narrow_gap_at_large_coordinates": 15}
    return [f"{k} = {agg.cnt.get(k, 0)} < {v}" for k, v in need.items() if agg.cnt.get(k, 0) < v]
