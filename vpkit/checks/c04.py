"""C04 - posteriors reported in metadata equal the fit object's posteriors.

Monitor: postcondition on every return of date(return_fit=True, set_metadata in {None, True}).
"""
import collections

import numpy as np
import tskit

from vpkit import common, zoo

ID = "C04"
N = {"quick": 200, "thorough": 5000}
BUDGET = {"quick": 240.0, "thorough": 700.0}
RULE = ("case = (zoo input with metadata none / permissive JSON / struct(mn,vr doubles), method, "
        "set_metadata in {None, True}, phasing); distinct by (topology hash, metadata kind, method, "
        "options); non-trivial = date() returned a fit and every row was compared")


def same(a, b):
    a = np.asarray(a, dtype=float)
    b = np.asarray(b, dtype=float)
    return a.shape == b.shape and bool(np.all((a == b) | (np.isnan(a) & np.isnan(b))))


def case(ctx, i, rec):
    rng = ctx.rng(i)
    if i % 10 == 0:
        ts, r = zoo.any_input(rng, kinds=["rootmut"])
    elif i % 10 == 1:
        ts, r = zoo.sim(rng, ploidy=2, n=int(rng.integers(2, 6)), mut_per_edge=5.0)
    else:
        ts, r = zoo.any_input(rng)
    nk = str(rng.choice(["none", "permissive", "struct_with", "schema_empty"]))
    mk = str(rng.choice(["none", "permissive", "struct_with", "schema_empty"]))
    ts, info = zoo.decorate(ts, rng, node_kind=nk, mut_kind=mk, individuals="keep", edge_md=False)
    method = str(rng.choice(common.METHODS))
    if method != "variational_gamma" and not common.discrete_ok(ts):
        method = "variational_gamma"
    if i % 3 == 2:
        # node ids that do not follow age order (subset / hand-built tables / split nodes)
        ts, _newid = zoo.renumber(ts, rng)
        r["renumbered"] = True
    set_md = [None, True][int(rng.integers(2))]
    kw = {"mutation_rate": common.default_mu(ts, r), "set_metadata": set_md, "return_fit": True}
    unphased = False
    if method == "variational_gamma":
        kw.update(common.vg_kwargs(rng))
        if ts.num_individuals > 0 and common.can_unphase(ts) and rng.random() < 0.6:
            kw["singletons_phased"] = False
            unphased = True
    else:
        kw["population_size"] = r.get("Ne", 100.0)
        if rng.random() < 0.5:
            kw["probability_space"] = str(rng.choice(["linear", "logarithmic"]))
    res, exc = common.date(ts, method, **kw)
    rec.sig = zoo.ts_sig(ts, method, nk, mk, set_md, unphased)
    if i < 4:
        rec.sample = dict(recipe=r, decoration=info, method=method, kw={k: repr(v) for k, v in kw.items()})
    if exc is not None:
        rec.count("no_return")
        rec.count("no_return:" + common.exc_key(exc)[:70])
        return
    if not (isinstance(res, tuple) and len(res) == 2):
        rec.violation("return-shape", f"return_fit=True returned {type(res)}")
        return
    out, fit = res
    rec.nontrivial = True
    rec.count(f"returned:{method}")
    if r.get("renumbered"):
        rec.count(f"renumbered:{method}")
    try:
        nmn, nvr = common.node_mn_vr(out)
        mmn, mvr = common.mut_mn_vr(out)
    except Exception as e:
        rec.violation("metadata-undecodable", f"{e}")
        return
    in_mmn, in_mvr = common.mut_mn_vr(ts)
    in_nmn, in_nvr = common.node_mn_vr(ts)
    issample = common.is_sample(ts)
    if method == "variational_gamma":
        post = fit.node_posteriors()
        if not same(nmn, post["mean"]) or not same(nvr, post["variance"]):
            bad = int(np.flatnonzero(~((nmn == post["mean"]) | (np.isnan(nmn) & np.isnan(post["mean"]))
                                       ) | ~((nvr == post["variance"]) | (np.isnan(nvr) & np.isnan(post["variance"]))))[0])
            rec.violation("vg:node-mn-vr-differs-from-fit",
                          f"node {bad}: metadata ({nmn[bad]!r},{nvr[bad]!r}) fit ({post['mean'][bad]!r},{post['variance'][bad]!r})")
        rec.count("vg_node_rows", ts.num_nodes)
        mp = fit.mutation_posteriors()
        if not same(mmn, mp["mean"]) or not same(mvr, mp["variance"]):
            # explained by a permutation of rows within sites?
            okperm = True
            for s in np.unique(ts.mutations_site):
                idx = np.flatnonzero(out.mutations_site == s)
                a = collections.Counter((repr(float(x)), repr(float(y))) for x, y in zip(mmn[idx], mvr[idx]))
                b = collections.Counter((repr(float(x)), repr(float(y))) for x, y in zip(mp["mean"][idx], mp["variance"][idx]))
                if a != b:
                    okperm = False
                    break
            bad = int(np.flatnonzero(~((mmn == mp["mean"]) | (np.isnan(mmn) & np.isnan(mp["mean"]))))[0]) \
                if not same(mmn, mp["mean"]) else -1
            if okperm:
                rec.violation("vg:mutation-ids-permuted-within-site",
                              f"output mutation {bad} carries mn {mmn[bad]!r} but fit.mutation_posteriors()[{bad}] "
                              f"has {mp['mean'][bad]!r}: rows of the output were re-sorted within the site")
            else:
                rec.violation("vg:mutation-mn-vr-differs-from-fit",
                              f"mutation {bad}: metadata mn {mmn[bad]!r} fit {mp['mean'][bad]!r}")
        rec.count("vg_mutation_rows", ts.num_mutations)
        rec.count("vg_mutation_nan_rows", int(np.sum(np.isnan(mp["mean"]))))
        if unphased:
            rec.count("vg_switched_singletons", int(np.sum(out.mutations_node != ts.mutations_node)))
    elif method == "inside_outside":
        post = fit.node_posteriors()
        names = post.dtype.names
        tp = np.array([float(x) for x in names])
        grid = np.array([post[nm] for nm in names]).T  # nodes x timepoints
        for u in range(ts.num_nodes):
            if issample[u]:
                if not np.all(np.isnan(grid[u])):
                    rec.violation("io:sample-has-grid-row", f"sample {u} has a posterior row")
                if nmn[u] != ts.nodes_time[u] or nvr[u] != 0:
                    rec.violation("io:sample-mn-vr", f"sample {u}: mn {nmn[u]!r} vr {nvr[u]!r}, time {ts.nodes_time[u]!r}")
                continue
            row = grid[u]
            if not np.all(np.isfinite(row)) or np.any(row < 0):
                rec.violation("io:row-not-probabilities", f"node {u}: posterior row has negative or non-finite entries")
                continue
            ssum = float(np.sum(row))
            rec.maxi("io_row_sum_err", abs(ssum - 1))
            if abs(ssum - 1) > 1e-12:
                rec.violation("io:row-sum", f"node {u}: posterior row sums to {ssum!r}")
            p = row / ssum
            mean = float(np.dot(p, tp))
            var = float(np.dot(p, (tp - mean) ** 2))
            e1 = abs(nmn[u] - mean) / max(abs(mean), 1e-300)
            e2 = abs(nvr[u] - var) / max(abs(var), 1e-300) if var > 0 else abs(nvr[u])
            rec.maxi("io_mean_relerr", e1)
            rec.maxi("io_var_relerr", e2)
            if not (e1 <= 1e-10) or not (e2 <= 1e-8):
                rec.violation("io:mn-vr-not-row-moments",
                              f"node {u}: metadata ({nmn[u]!r},{nvr[u]!r}) row moments ({mean!r},{var!r})")
            rec.count("io_rows")
        if not same(mmn, in_mmn) or not same(mvr, in_mvr):
            rec.violation("io:mutation-metadata-written", "inside_outside changed mutation mn/vr")
    else:
        if not same(nmn, in_nmn) or not same(nvr, in_nvr) or not same(mmn, in_mmn) or not same(mvr, in_mvr):
            rec.violation("max:metadata-written", "maximization wrote or changed mn/vr metadata")
        rec.count("max_cases")


def reach(ctx, agg):
    need = {"returned:variational_gamma": 30, "returned:inside_outside": 10, "returned:maximization": 10,
            "vg_mutation_nan_rows": 1, "renumbered:inside_outside": 3, "vg_switched_singletons": 1, "io_rows": 50}
    return [f"{k} = {agg.cnt.get(k, 0)} < {v}" for k, v in need.items() if agg.cnt.get(k, 0) < v]
