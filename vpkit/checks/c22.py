"""C22 - unphased singleton handling only re-phases singletons and ignores input phase.

Postcondition monitor on mutation nodes (phased and unphased runs) plus a two-run relation:
the same input with its singletons re-split at random between each individual's two nodes.
"""
import numpy as np
import tskit

import tsdate
from vpkit import common, pairs, zoo

ID = "C22"
N = {"quick": 110, "thorough": 4000}
BUDGET = {"quick": 240.0, "thorough": 700.0}
RULE = ("case = (diploid simulation / inference with 5-200 singletons, option set incl. "
        "match_segregating_sites and rescaling, 2 random re-phasings; plus inputs with haploid, "
        "triploid, historical or internal-node individuals that must be rejected or left alone); "
        "distinct by (topology hash, options, re-phasing); non-trivial = >=1 singleton moved in the "
        "input and both runs compared")


def check_moves(rec, ts, out_nodes, label):
    """every changed mutation node must be the other node of a diploid contemporary individual"""
    # rows of sites with several mutations can be re-sorted by date() (the C02 finding);
    # identities are only unambiguous at sites with a single mutation
    single = np.bincount(ts.mutations_site, minlength=ts.num_sites)[ts.mutations_site] == 1
    rec.count(f"{label}:mutations_at_multi_mutation_sites_not_judged", int(np.sum(~single)))
    ch = np.flatnonzero((ts.mutations_node != out_nodes) & single)
    for m in ch:
        u, v = int(ts.mutations_node[m]), int(out_nodes[m])
        ind = ts.nodes_individual[u]
        ok = ind != tskit.NULL
        if ok:
            nodes = [int(x) for x in ts.individual(ind).nodes]
            ok = len(nodes) == 2 and all(ts.nodes_time[x] == 0 for x in nodes) and v in nodes and v != u \
                and bool(ts.nodes_flags[u] & tskit.NODE_IS_SAMPLE)
        if not ok:
            rec.violation(f"{label}:mutation-moved-illegally", f"mutation {m}: node {u} -> {v}", mutation=int(m))
            return
    rec.count(f"{label}:mutations_moved", len(ch))


def case(ctx, i, rec):
    rng = ctx.rng(i)
    if i % 7 == 6:
        # individuals that must be left alone / rejected
        ts, r = zoo.sim(rng, ploidy=2, n=int(rng.integers(2, 6)), mut_per_edge=4.0)
        ts, info = zoo.decorate(ts, rng, individuals=str(rng.choice(["haploid", "mixed", "internal"])),
                                node_kind="none", mut_kind="none", edge_md=False)
        res, exc = common.call(tsdate.variational_gamma, ts, mutation_rate=common.default_mu(ts, r),
                               singletons_phased=False, rescaling_intervals=5, return_fit=True)
        rec.sig = zoo.ts_sig(ts, "odd-individuals", info["individuals"])
        if exc is not None:
            if isinstance(exc, ValueError):
                rec.count("odd_individuals_rejected_with_ValueError")
            else:
                rec.count("odd_individuals_other_exception:" + common.exc_key(exc)[:50])
            return
        rec.count("odd_individuals_accepted")
        check_moves(rec, ts, res[0].mutations_node, "odd")
        return
    if i % 5 == 4:
        try:
            ts, r = zoo.inferred(rng, ploidy=2, n=int(rng.integers(3, 7)))
        except Exception:
            ts, r = zoo.sim(rng, ploidy=2, n=int(rng.integers(2, 8)), mut_per_edge=5.0)
    else:
        ts, r = zoo.sim(rng, ploidy=2, n=int(rng.integers(2, 8)), L=float(rng.choice([1e3, 1e4])),
                        mut_per_edge=float(rng.choice([1.0, 5.0, 20.0])))
    ts = zoo.strip_mutation_times(ts)
    if not (ts.num_individuals and common.can_unphase(ts)):
        rec.count("skipped")
        return
    kw = dict(mutation_rate=common.default_mu(ts, r), singletons_phased=False,
              rescaling_intervals=int(rng.choice([0, 1, 5, 10])),
              match_segregating_sites=bool(rng.random() < 0.5),
              max_iterations=int(rng.choice([5, 25])))
    rec.sig = zoo.ts_sig(ts, tuple(sorted((k, repr(v)) for k, v in kw.items() if k != "mutation_rate")))
    if i < 3:
        rec.sample = dict(recipe=r, kw={k: repr(v) for k, v in kw.items()})
    # phased run: nodes never change
    kp = dict(kw)
    kp["singletons_phased"] = True
    p = pairs.run(ts, "variational_gamma", kp)
    if p.exc is None:
        rec.count("phased_runs")
        single = np.bincount(ts.mutations_site, minlength=ts.num_sites)[ts.mutations_site] == 1
        if not np.array_equal(p.mut_nodes[single], ts.mutations_node[single]):
            rec.violation("phased:mutation-nodes-changed", "singletons_phased=True changed mutation nodes")
    a = pairs.run(ts, "variational_gamma", kw)
    if a.exc is not None:
        rec.count("base_no_return")
        rec.count("no_return:" + common.exc_key(a.exc)[:60])
        return
    check_moves(rec, ts, a.mut_nodes, "unphased")
    rec.count("unphased_runs")
    if np.sum(ts.mutations_node != a.mut_nodes) >= 5:
        rec.count("inputs_with_5plus_switched_singletons")
    ph = np.asarray(a.fit.mutation_phase)
    blocks = np.asarray(a.fit.mutation_blocks)
    if np.any(ph[blocks != tskit.NULL] == 0.5):
        rec.count("runs_with_phase_exactly_half")
    for rep in range(2):
        ts2, moved = zoo.rephase(ts, rng, p=float(rng.choice([0.3, 0.5, 1.0])))
        if moved == 0:
            continue
        if not np.array_equal(ts2.mutations_site, ts.mutations_site):
            rec.count("skipped_mutation_order_changed")
            continue
        b = pairs.run(ts2, "variational_gamma", kw)
        if b.exc is not None:
            rec.violation("rephased-run-raised", f"base returned, re-phased input raised {common.exc_key(b.exc)}")
            continue
        rec.count("rephasings")
        rec.nontrivial = True
        pa, pb = np.asarray(a.fit.mutation_phase), np.asarray(b.fit.mutation_phase)
        if np.any(np.isnan(pa[blocks != tskit.NULL])) or np.any(np.isnan(pb[blocks != tskit.NULL])):
            rec.count("pairs_skipped_undefined_phase")
            continue
        single = np.bincount(ts.mutations_site, minlength=ts.num_sites)[ts.mutations_site] == 1
        sel = np.flatnonzero(single)
        devs = pairs.compare(rec, a, b, label="rephase", mut_map=None)
        for kname in ("mut_time", "mut_mn", "mut_vr"):
            xa = {"mut_time": a.mut_times, "mut_mn": a.mut_mn, "mut_vr": a.mut_vr}[kname][sel]
            xb = {"mut_time": b.mut_times, "mut_mn": b.mut_mn, "mut_vr": b.mut_vr}[kname][sel]
            devs[kname] = common.rel_err(xa, xb)
        worst = max(devs.values())
        same_nodes = np.array_equal(a.mut_nodes[sel], b.mut_nodes[sel])
        if not (worst <= 1e-8) or not same_nodes:
            ev = pairs.near_tie_evidence(a, b)
            tie_half = bool(np.any(np.abs(pa[blocks != tskit.NULL] - 0.5) < 1e-9))
            if not same_nodes and tie_half and worst <= 1e-8:
                rec.count("placement_differs_only_for_exact_ties")
                continue
            if ev and same_nodes:
                rec.violation("near-tie-in-rescaling-step", f"re-phasing changed outputs by {worst:.3g}; observed {ev[:2]}", dev=worst)
                continue
            rec.violation("depends-on-input-phase" + (":segsites" if kw["match_segregating_sites"] else ""),
                          f"re-phasing {moved} singletons changed {max(devs, key=devs.get)} by {worst:.3g}"
                          f"{'' if same_nodes else ' and the output mutation nodes'} (match_segregating_sites={kw['match_segregating_sites']}, "
                          f"rescaling_intervals={kw['rescaling_intervals']})", dev=worst)


def reach(ctx, agg):
    need = {"unphased_runs": 40, "rephasings": 60, "inputs_with_5plus_switched_singletons": 15,
            "phased_runs": 40, "odd_individuals_rejected_with_ValueError": 3}
    return [f"{k} = {agg.cnt.get(k, 0)} < {v}" for k, v in need.items() if agg.cnt.get(k, 0) < v]
