"""C31 - site-time estimates follow their documented definition.

Reference-model monitor on sites_time_from_ts / add_sampledata_times: the definition is
evaluated from mutation.edge and the edge table (no tree iteration), with node ages taken
from node times or from the mn metadata.
"""
import json

import numpy as np
import tskit

import tsdate
from vpkit import common, zoo

ID = "C31"
N = {"quick": 160, "thorough": 4000}
BUDGET = {"quick": 240.0, "thorough": 700.0}
RULE = ("case = (undated input, output of one of the three methods, or input with synthetic mn "
        "metadata that does not respect the topology; sites with 0, 1 and several nested / recurrent "
        "mutations, mutations above roots; all node_selection values, min_time 0/1e-9/1/1e3, "
        "unconstrained T/F); every 8th case builds a tsinfer SampleData with historical individuals; "
        "distinct by (topology hash, source, options); non-trivial = some site has >=2 mutations")

SEL = ["child", "parent", "arithmetic", "geometric"]


def oracle(ts, ages, sel, min_time):
    out = np.full(ts.num_sites, np.nan)
    for m in ts.mutations():
        child = ages[m.node]
        if sel == "child" or m.edge == tskit.NULL:
            a = child
        else:
            par = ages[ts.edges_parent[m.edge]]
            a = {"parent": par, "arithmetic": (child + par) / 2, "geometric": np.sqrt(child * par)}[sel]
        if np.isnan(out[m.site]) or out[m.site] < a:
            out[m.site] = a
    has = ~np.isnan(out)
    out[has & (out < min_time)] = min_time
    return out


def with_mn(ts, rng, mode):
    """node metadata (JSON) with mn fields: 'ordered' = node times, 'scrambled' = arbitrary positive"""
    t = ts.dump_tables()
    t.nodes.metadata_schema = tskit.MetadataSchema({"codec": "json"})
    if mode == "ordered":
        mn = ts.nodes_time * np.exp(rng.normal(0, 0.05, size=ts.num_nodes))
    else:
        mn = 10 ** rng.uniform(-1, 4, size=ts.num_nodes)
    t.nodes.packset_metadata([json.dumps({"mn": float(x), "vr": 1.0}).encode() for x in mn])
    return t.tree_sequence(), mn


def case(ctx, i, rec):
    rng = ctx.rng(i)
    if i % 8 == 7:
        return sampledata_case(ctx, i, rec, rng)
    ts, r = zoo.sim(rng, n=int(rng.integers(3, 10)), L=float(rng.choice([1e2, 1e3])), mut_per_edge=float(rng.choice([2.0, 8.0])))
    ts = zoo.strip_mutation_times(ts)
    ts, _ = zoo.add_recurrent_mutations(ts, rng, k=int(rng.integers(2, 8)))
    if i % 3 == 0:
        ts, _ = zoo.add_root_mutations(ts, rng, k=int(rng.integers(1, 4)))
    ts, _ = zoo.add_monomorphic_sites(ts, rng, k=int(rng.integers(0, 3)))
    source = ["undated", "variational_gamma", "inside_outside", "maximization", "synthetic_ordered", "synthetic_scrambled"][i % 6]
    mn = None
    if source in common.METHODS:
        kw = {"mutation_rate": common.default_mu(ts, r)}
        if source != "variational_gamma":
            kw["population_size"] = r.get("Ne", 100.0)
        else:
            kw["rescaling_intervals"] = 5
        res, exc = common.date(ts, source, **kw)
        if exc is not None:
            rec.count("dating_failed:" + common.exc_key(exc)[:40])
            source = "undated"
        else:
            ts = res
    elif source.startswith("synthetic"):
        ts, mn = with_mn(ts, rng, source.split("_")[1])
    if (i // 6) % 2 == 1:
        # every node id permuted: samples are no longer the first rows, non-samples get ids below num_samples
        ts, _ = zoo.renumber_all(ts, rng)
        source += "+renumbered"
        rec.count("inputs:samples_not_first")
    rec.sig = zoo.ts_sig(ts, source)
    per_site = np.bincount(ts.mutations_site, minlength=ts.num_sites)
    rec.nontrivial = bool(np.any(per_site >= 2))
    if i < 3:
        rec.sample = dict(recipe=r, source=source, sites=int(ts.num_sites), max_mutations_per_site=int(per_site.max()))
    issample = common.is_sample(ts)
    nested = bool(np.any(ts.mutations_parent != tskit.NULL))
    for sel in SEL:
        for unc in (True, False):
            min_time = float(rng.choice([0.0, 1e-9, 1.0, 1e3]))
            ages = ts.nodes_time.copy()
            expect_fail = False
            if unc:
                mnv, _ = common.node_mn_vr(ts)
                if np.any(np.isnan(mnv[~issample])):
                    expect_fail = True
                else:
                    ages[~issample] = mnv[~issample]
            try:
                got = tsdate.sites_time_from_ts(ts, unconstrained=unc, node_selection=sel, min_time=min_time)
            except ValueError as e:
                if expect_fail:
                    rec.count("unconstrained_without_mn_rejected")
                else:
                    rec.violation("sites_time-raised", f"{source}, {sel}, unconstrained={unc}: {e}")
                continue
            except Exception as e:
                rec.violation("sites_time-raised:" + type(e).__name__, f"{source}, {sel}, unconstrained={unc}: {common.exc_key(e)}")
                continue
            if expect_fail:
                rec.violation("unconstrained-without-mn-accepted", f"{source}: no mn metadata on non-sample nodes but a result was returned")
                continue
            want = oracle(ts, ages, sel, min_time)
            rec.count(f"calls:{sel}")
            rec.count(f"calls:unconstrained={unc}")
            rec.count(f"calls:{source}")
            if nested and unc and source.startswith("synthetic_scrambled"):
                rec.count("calls_nested_mutations_with_out_of_order_mn")
            if np.any(ts.mutations_parent != tskit.NULL):
                rec.count("calls_with_nested_mutations")
            if np.any(np.array([m.edge for m in ts.mutations()]) == tskit.NULL):
                rec.count("calls_with_root_mutations")
            ok = (np.isnan(got) & np.isnan(want)) | (np.abs(got - want) <= 1e-12 * np.maximum(np.abs(want), 1e-300))
            if got.shape != want.shape or not np.all(ok):
                s = int(np.flatnonzero(~ok)[0]) if got.shape == want.shape else -1
                rec.violation(f"site-time-wrong:{sel}",
                              f"{source}, unconstrained={unc}, min_time={min_time}: site {s} got {got[s]!r}, definition gives {want[s]!r} "
                              f"({per_site[s]} mutations)", site=s)


def sampledata_case(ctx, i, rec, rng):
    import tsinfer

    ts, r = zoo.sim_historical(rng, ploidy=1, L=1e3, mut_per_edge=4.0)
    rec.sig = zoo.ts_sig(ts, "sampledata")
    try:
        with tsinfer.SampleData(sequence_length=ts.sequence_length) as sd:
            for u in ts.samples():
                sd.add_individual(ploidy=1, time=float(ts.nodes_time[u]))
            for var in ts.variants():
                if len(var.alleles) >= 2 and np.all(var.genotypes >= 0):
                    sd.add_site(var.site.position, var.genotypes, [a if a is not None else "" for a in var.alleles])
    except Exception as e:
        rec.count("sampledata_build_failed:" + type(e).__name__)
        return
    if sd.num_sites == 0:
        rec.count("sampledata_without_sites")
        return
    est = 10 ** rng.uniform(-1, np.log10(max(ts.nodes_time.max(), 10.0)), size=sd.num_sites)
    try:
        out = tsdate.add_sampledata_times(sd, est)
    except Exception as e:
        rec.violation("add_sampledata_times-raised", f"{common.exc_key(e)}")
        return
    ind_time = sd.individuals_time[:]
    samp_ind = sd.samples_individual[:]
    bound = np.zeros(sd.num_sites)
    for var in sd.variants():
        g = var.genotypes
        for s_ix in np.flatnonzero(g > 0):
            tt = ind_time[samp_ind[s_ix]]
            if tt > 0:
                bound[var.site.id] = max(bound[var.site.id], tt)
    want = np.maximum(est, bound)
    got = out.sites_time[:]
    rec.count("sampledata_files")
    rec.nontrivial = True
    if np.any(bound > est):
        rec.count("sampledata_files_where_a_historical_carrier_is_older")
    if not np.allclose(got, want, rtol=1e-12, atol=0):
        s = int(np.flatnonzero(~np.isclose(got, want, rtol=1e-12, atol=0))[0])
        rec.violation("sampledata-site-time-wrong", f"site {s}: got {got[s]!r}, estimate {est[s]!r}, oldest historical carrier {bound[s]!r}")


def reach(ctx, agg):
    need = {f"calls:{s}": 100 for s in SEL}
    need.update({"calls_with_nested_mutations": 50, "calls_with_root_mutations": 50, "sampledata_files": 10,
                 "sampledata_files_where_a_historical_carrier_is_older": 3, "calls:synthetic_scrambled": 30,
                 "calls:unconstrained=True": 100, "inputs:samples_not_first": 20})
    return [f"{k} = {agg.cnt.get(k, 0)} < {v}" for k, v in need.items() if agg.cnt.get(k, 0) < v]
