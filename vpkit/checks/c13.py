"""C13 - maximization picks ordered grid timepoints by the documented rule.

Reference-model monitor on fit.posterior_mean / fit.inside of real maximization() runs: the
objective of every node is recomputed from the statement (inside value times Poisson
likelihoods of the edges to its already-assigned parents) and the chosen index must maximise it.
"""
import numpy as np
import scipy.special
import tskit

import tsdate
from vpkit import common, zoo

ID = "C13"
N = {"quick": 160, "thorough": 5000}
BUDGET = {"quick": 240.0, "thorough": 700.0}
RULE = ("case = (contemporaneous zoo input, mostly multi-tree so nodes have several parent edges, "
        "prior grid, eps incl. large values, probability space); distinct by (topology hash, grid, "
        "eps, space); non-trivial = at least one node with >=2 parent edges was judged")


def log_poisson(m, rate):
    with np.errstate(divide="ignore", invalid="ignore"):
        out = m * np.log(rate) - rate - scipy.special.gammaln(m + 1)
    out = np.where(rate > 0, out, np.where(m == 0, 0.0, -np.inf))
    return out


def judge(rec, ts, fit, mu, eps, space):
    """returns dict node -> (chosen idx, log-objective array) for use by other checks"""
    tp = np.asarray(fit.lik.timepoints, dtype=float)
    pm = np.asarray(fit.posterior_mean, dtype=float)
    issample = common.is_sample(ts)
    idx = np.full(ts.num_nodes, -1)
    for u in range(ts.num_nodes):
        if issample[u]:
            continue
        w = np.flatnonzero(tp == pm[u])
        if len(w) != 1:
            rec.violation("time-not-a-timepoint", f"node {u}: assigned time {pm[u]!r} is not one of the prior's timepoints")
            return None
        idx[u] = int(w[0])
    muts = np.zeros(ts.num_edges)
    for m in ts.mutations():
        if m.edge != tskit.NULL:
            muts[m.edge] += 1
    pedges = {}
    for e in ts.edges():
        pedges.setdefault(int(e.child), []).append(e)
        if not issample[e.child] and not issample[e.parent] and idx[e.child] > idx[e.parent]:
            rec.violation("child-later-than-parent",
                          f"edge {e.id}: child {e.child} index {idx[e.child]} > parent {e.parent} index {idx[e.parent]}")
    objs = {}
    for u in range(ts.num_nodes):
        if issample[u]:
            continue
        ins = np.asarray(fit.inside[u], dtype=float)
        with np.errstate(divide="ignore"):
            lins = ins if space == "logarithmic" else np.log(ins)
        if u not in pedges:
            obj = lins.copy()
            hi = len(tp) - 1
            rec.count("root_like_nodes_judged")
        else:
            hi = min(int(idx[e.parent]) for e in pedges[u])
            obj = lins[: hi + 1].copy()
            for e in pedges[u]:
                tpar = tp[idx[e.parent]]
                rate = (tpar - tp[: hi + 1] + eps) * mu * (e.right - e.left)
                obj = obj + log_poisson(muts[e.id], rate)
            rec.count("nodes_with_parents_judged")
            if len(pedges[u]) >= 2:
                rec.count("nodes_with_2plus_parent_edges")
        if idx[u] > hi:
            rec.violation("index-above-youngest-parent", f"node {u}: index {idx[u]} > youngest parent index {hi}")
            continue
        best = np.nanmax(obj) if np.any(~np.isnan(obj)) else np.nan
        if not np.isfinite(best):
            rec.count("skipped_underflow_all_candidates_zero")
            continue
        objs[u] = (int(idx[u]), obj)
        chosen = obj[idx[u]]
        gap = best - chosen
        rec.maxi("max_log_objective_gap_accepted", gap if gap <= 1e-9 * max(1.0, abs(best)) else 0.0)
        if not (gap <= 1e-9 * max(1.0, abs(best))):
            j = int(np.nanargmax(obj))
            rec.violation("not-the-maximiser" if u in pedges else "root-not-argmax-inside",
                          f"node {u}: assigned timepoint index {idx[u]} but index {j} has a log-objective larger by {gap:.6g}",
                          node=u, gap=float(gap))
    return objs


def pick(ctx, i):
    rng = ctx.rng(i)
    k = i % 4
    if k == 0:
        ts, r = zoo.sim(rng, n=int(rng.integers(4, 14)), L=1e4, rec=None)
    elif k == 1:
        ts, r = zoo.any_input(rng, contemporaneous=True, kinds=["inferred", "missing", "recurrent", "handmade"])
    else:
        ts, r = zoo.sim(rng)
    if not common.discrete_ok(ts):
        ts, r = zoo.sim(rng)
    return ts, r, rng


def case(ctx, i, rec):
    ts, r, rng = pick(ctx, i)
    Ne = r.get("Ne", 100.0)
    mu = common.default_mu(ts, r)
    space = ["logarithmic", "linear"][i % 2]
    scale_t = 2 * Ne
    eps = float(rng.choice([0.0, 1e-8, 1e-6, 1e-3, 0.01 * scale_t, 0.1 * scale_t, 0.5 * scale_t]))
    mode = int(rng.integers(3))
    kw = dict(mutation_rate=mu, eps=eps, probability_space=space, return_fit=True)
    if mode == 0:
        kw["population_size"] = Ne
    else:
        grid = int(rng.integers(3, 30)) if mode == 1 else np.concatenate(
            [[0.0], np.sort(np.unique(10 ** rng.uniform(-1.5, 1.0, size=int(rng.integers(2, 20))))) * scale_t])
        try:
            kw["priors"] = tsdate.build_prior_grid(ts, population_size=Ne, timepoints=grid,
                                                   prior_distribution=str(rng.choice(["lognorm", "gamma"])))
        except Exception as e:
            rec.count("prior_build_failed")
            return
    res, exc = common.call(tsdate.maximization, ts, **kw)
    rec.sig = zoo.ts_sig(ts, space, repr(eps), mode)
    if i < 3:
        rec.sample = dict(recipe=r, eps=eps, space=space, prior_mode=mode)
    if exc is not None:
        rec.count("no_return")
        rec.count("no_return:" + common.exc_key(exc)[:60])
        return
    out, fit = res
    rec.count(f"runs:{space}")
    rec.count(f"eps:{'small' if eps < 1e-2 else 'large'}")
    before = rec.cnt.get("nodes_with_2plus_parent_edges", 0)
    judge(rec, ts, fit, mu, eps, space)
    if rec.cnt.get("nodes_with_2plus_parent_edges", 0) > before:
        rec.nontrivial = True


def reach(ctx, agg):
    need = {"nodes_with_2plus_parent_edges": 200, "runs:linear": 20, "runs:logarithmic": 20,
            "eps:large": 20, "root_like_nodes_judged": 50}
    return [f"{k} = {agg.cnt.get(k, 0)} < {v}" for k, v in need.items() if agg.cnt.get(k, 0) < v]
