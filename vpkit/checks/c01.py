"""C01 - dated output is a valid tree sequence with enforced branch lengths.

Monitor: postcondition on every return of date() plus a recording wrapper on
util.constrain_ages (the function whose job the branch-length guarantee is), so the
guarantee is judged on its return value even when tskit later rejects the tables.
"""
import numpy as np
import tskit

import tsdate
from vpkit import common, zoo

ID = "C01"
N = {"quick": 420, "thorough": 12000}
BUDGET = {"quick": 240.0, "thorough": 700.0}
RULE = ("case = (zoo input, method, min_branch_length, constr_iterations, rescaling, phasing, "
        "time scale 1e-6..1e12 via mutation rate / population size); distinct by "
        "(topology+mutation hash, method, option tuple); non-trivial = date() returned and "
        "the output was judged edge by edge and mutation by mutation")

_last = {}
_orig_constrain = tsdate.util.constrain_ages


def _constrain_wrapper(ts, nodes_time, epsilon=1e-6, max_iterations=0):
    out = _orig_constrain(ts, nodes_time, epsilon, max_iterations)
    _last["call"] = (ts, np.array(nodes_time, copy=True), epsilon, max_iterations, np.array(out, copy=True))
    return out


tsdate.util.constrain_ages = _constrain_wrapper

MBL = [None, 1e-12, 1e-8, 1e-3, 1.0, 1e3]
CI = [None, 0, 1, 100]
SCALES = [1e-6, 1e-3, 1.0, 1.0, 1e3, 1e6, 1e9, 1e12]


def check_edges(rec, ts, t, mbl, where):
    p, c = ts.edges_parent, ts.edges_child
    tp, tc = t[p], t[c]
    bad_order = ~(tp > tc)
    bad_len = ~(tp >= tc + mbl)
    if np.any(bad_order):
        e = int(np.flatnonzero(bad_order)[0])
        rec.violation(f"{where}:parent-not-older",
                      f"{where}: edge {e} parent {p[e]} time {tp[e]!r} not > child {c[e]} time {tc[e]!r} (mbl={mbl})",
                      edge=e, tp=float(tp[e]), tc=float(tc[e]), mbl=mbl)
    elif np.any(bad_len):
        e = int(np.flatnonzero(bad_len)[0])
        rec.violation(f"{where}:branch-shorter-than-mbl",
                      f"{where}: edge {e} t_p={tp[e]!r} < fl(t_c+mbl)={tc[e] + mbl!r}",
                      edge=e, tp=float(tp[e]), tc=float(tc[e]), mbl=mbl)
    rec.count("edges_checked", len(p))
    rec.count("edges_at_min_length", int(np.sum(tp == tc + mbl)))
    rec.count("edges_in_rounding_regime", int(np.sum(tc + mbl == tc)))


def judge_output(rec, ts_in, out, mbl):
    try:
        out.dump_tables().tree_sequence()
    except Exception as e:
        rec.violation("output-not-valid-ts", f"returned tables fail tree_sequence(): {e}")
        return
    t = out.nodes_time
    if not np.all(np.isfinite(t)):
        rec.violation("nonfinite-node-time", "output node time not finite")
    check_edges(rec, out, t, mbl, "output")
    # mutations
    mt = out.mutations_time
    mnode = out.mutations_node
    if out.num_mutations:
        medge = np.array([m.edge for m in out.mutations()])
        if not np.all(np.isfinite(mt)):
            k = int(np.flatnonzero(~np.isfinite(mt))[0])
            rec.violation("mutation-time-nonfinite", f"mutation {k} time {mt[k]!r}")
        else:
            lo = t[mnode]
            bad = mt < lo
            if np.any(bad):
                k = int(np.flatnonzero(bad)[0])
                rec.violation("mutation-below-node", f"mutation {k} time {mt[k]!r} < node time {lo[k]!r}")
            has = medge != tskit.NULL
            hi = np.full(out.num_mutations, np.inf)
            hi[has] = t[out.edges_parent[medge[has]]]
            bad = mt > hi
            if np.any(bad):
                k = int(np.flatnonzero(bad)[0])
                rec.violation("mutation-above-parent", f"mutation {k} time {mt[k]!r} > parent node time {hi[k]!r}")
            rec.count("mutations_checked", out.num_mutations)
            rec.count("mutations_above_root", int(np.sum(~has)))


def build_case(ctx, i):
    rng = ctx.rng(i)
    anchors = {
        0: ("maximization", 1e12, "sim"), 1: ("inside_outside", 1e12, "sim"),
        2: ("variational_gamma", 1e12, "sim"), 3: ("variational_gamma", 1.0, "historical"),
        4: ("variational_gamma", 1.0, "inferred"), 5: ("variational_gamma", 1.0, "missing"),
        6: ("maximization", 1e9, "handmade"), 7: ("variational_gamma", 1e12, "handmade"),
        8: ("variational_gamma", 1e-6, "sim"), 9: ("inside_outside", 1e-6, "sim"),
        10: ("variational_gamma", 1e12, "internal_sample"), 11: ("variational_gamma", 1.0, "rootmut"),
    }
    if i in anchors:
        method, scale, kind = anchors[i]
        ts, r = zoo.any_input(rng, kinds=[kind])
    else:
        ts, r = zoo.any_input(rng)
        method = str(rng.choice(common.METHODS))
        scale = float(rng.choice(SCALES))
    if method != "variational_gamma" and not common.discrete_ok(ts):
        method = "variational_gamma"
    if rng.random() < 0.3 and ts.num_individuals == 0:
        ts, info = zoo.decorate(ts, rng, individuals="keep")
    mu0 = common.default_mu(ts, r)
    kw = {"mutation_rate": mu0 / scale}
    mbl = MBL[int(rng.integers(len(MBL)))] if i not in anchors else 1e-8
    ci = CI[int(rng.integers(len(CI)))] if i not in anchors else None
    if mbl is not None:
        kw["min_branch_length"] = mbl
    if ci is not None:
        kw["constr_iterations"] = ci
    if method == "variational_gamma":
        kw.update(common.vg_kwargs(rng))
        if ts.num_individuals > 0 and common.can_unphase(ts) and rng.random() < 0.5:
            kw["singletons_phased"] = False
    else:
        Ne = r.get("Ne", 100.0)
        kw["population_size"] = Ne * scale
        if rng.random() < 0.5:
            kw["probability_space"] = str(rng.choice(["linear", "logarithmic"]))
    return ts, r, method, kw, scale


def case(ctx, i, rec):
    ts, r, method, kw, scale = build_case(ctx, i)
    _last.clear()
    res, exc = common.date(ts, method, **kw)
    optsig = tuple(sorted((k, repr(v)) for k, v in kw.items() if k not in ("mutation_rate", "population_size")))
    rec.sig = zoo.ts_sig(ts, method, optsig, scale)
    mbl = kw.get("min_branch_length") or 1e-8
    rec.count(f"method:{method}")
    if i < 4:
        rec.sample = dict(recipe=r, method=method, kw={k: repr(v) for k, v in kw.items()}, scale=scale)
    # the constrain_ages monitor is judged whether or not date() went on to return
    if "call" in _last:
        cts, tin, eps, iters, tout = _last["call"]
        rec.count("constrain_ages_calls")
        if not np.all(np.isfinite(tin)):
            # the method handed over a NaN/inf posterior mean (e.g. linear-space underflow):
            # nothing constrain_ages can do; the failed call is C35's business
            rec.count("constrain_ages_called_with_nonfinite_means")
        else:
            check_edges(rec, cts, tout, eps, "constrain_ages-return")
        if np.any(tout != tin):
            rec.count("constrain_moved_some_node")
        if float(np.max(tout)) > 2.0**53 * eps:
            rec.count(f"rounding_regime:{method}")
    if exc is not None:
        rec.count("no_return")
        rec.count("no_return:" + common.exc_key(exc)[:80])
        return
    rec.nontrivial = True
    rec.count("returned")
    rec.count(f"returned:{method}")
    if not common.contemporaneous(ts):
        rec.count("has_historical")
    if ts.num_trees > 1:
        rec.count("multi_tree")
    if np.any(np.bincount(ts.edges_parent, minlength=ts.num_nodes) > 2) and ts.num_trees == 1:
        rec.count("polytomy_single_tree")
    rec.maxi("max_node_time", float(np.max(res.nodes_time)))
    rec.maxi("neg_log10_min_positive_time",
             -np.log10(np.min(res.nodes_time[res.nodes_time > 0])) if np.any(res.nodes_time > 0) else 0)
    judge_output(rec, ts, res, mbl)


def reach(ctx, agg):
    need = {"returned:variational_gamma": 20, "returned:inside_outside": 5, "returned:maximization": 5,
            "rounding_regime:variational_gamma": 1, "rounding_regime:maximization": 1,
            "rounding_regime:inside_outside": 1, "has_historical": 1, "multi_tree": 5,
            "constrain_ages_calls": 50, "mutations_above_root": 1}
    return [f"{k} = {agg.cnt.get(k, 0)} < {v}" for k, v in need.items() if agg.cnt.get(k, 0) < v]
