"""C35 - invalid inputs are rejected cleanly and valid ones never crash.

Postcondition monitor on the outcome of every call: a result of the documented shape, or
ValueError / NotImplementedError with a message. Runs on the bounds-checking build, so an
out-of-range index inside a kernel surfaces as IndexError. Violations are keyed by mechanism
(exception type, innermost tsdate function, message stem).
"""
import numpy as np
import tskit

import tsdate
from vpkit import common, zoo

ID = "C35"
N = {"quick": 900, "thorough": 40000}
BUDGET = {"quick": 240.0, "thorough": 900.0}
RULE = ("case = (zoo input incl. pathological structure: unary / dangling / disconnected nodes, multiple "
        "roots, gaps, isolated samples, mutations above roots and on isolated samples, no mutations, few "
        "mutations with default rescaling, hostile metadata, extra flags, times 1e-6..1e12) x (entry point, "
        "return flags, one parameter set inside the valid ranges or with one named invalid parameter); "
        "distinct by (topology hash, entry point, parameter tuple); non-trivial = the call returned or was "
        "rejected and the outcome was classified")

ALLOWED = (ValueError, NotImplementedError)


def pathological(rng, kind):
    ts, r = zoo.sim(rng, n=int(rng.integers(3, 10)), L=float(rng.choice([1e2, 1e3])), mut_per_edge=float(rng.choice([0.3, 3.0])))
    ts = zoo.strip_mutation_times(ts)
    t = ts.dump_tables()
    if kind == "unary":
        sub = rng.choice(ts.samples(), size=max(2, ts.num_samples // 2), replace=False)
        return ts.simplify(np.sort(sub), keep_unary=True), r
    if kind == "dangling":
        # remove all child edges of one internal node over part of the genome
        cand = np.unique(ts.edges_parent)
        u = int(rng.choice(cand))
        keep = ~((ts.edges_parent == u) & (rng.random(ts.num_edges) < 0.7))
        t.edges.keep_rows(keep)
    elif kind == "disconnected":
        t.nodes.add_row(flags=0, time=float(ts.nodes_time.max() * 2))
    elif kind == "multiroot":
        cut = float(np.quantile(ts.nodes_time[ts.nodes_time > 0], 0.6))
        keep = ts.nodes_time[ts.edges_parent] <= cut
        t.edges.keep_rows(keep)
    elif kind == "gap":
        a, b = sorted(rng.integers(1, int(ts.sequence_length) - 1, size=2))
        if b > a:
            t.delete_intervals([[int(a), int(b)]], simplify=False, record_provenance=False)
    elif kind == "no_mutations":
        t.mutations.clear()
        t.sites.clear()
    elif kind == "isolated_mutation":
        a, b = sorted(rng.integers(1, int(ts.sequence_length) - 1, size=2))
        if b > a + 1:
            t.delete_intervals([[int(a), int(b)]], simplify=False, record_provenance=False)
            x = float(a) + 0.5
            if x not in set(t.sites.position.tolist()):
                s = t.sites.add_row(position=x, ancestral_state="0")
                t.mutations.add_row(site=s, node=int(rng.choice(ts.samples())), derived_state="1")
    elif kind == "undecodable_metadata":
        t.nodes.metadata_schema = tskit.MetadataSchema({"codec": "json"})
        t.nodes.packset_metadata([b"not json"] * t.nodes.num_rows)
    elif kind == "sparse":
        # very few mutations, default rescaling_intervals
        t.mutations.parent = np.full(t.mutations.num_rows, tskit.NULL, dtype=np.int32)
        keep = np.zeros(t.mutations.num_rows, dtype=bool)
        keep[rng.choice(len(keep), size=min(len(keep), int(rng.integers(1, 4))), replace=False)] = True
        t.mutations.keep_rows(keep)
    elif kind == "samples_at_root":
        # a sample that is the root (no parent) and has children
        ts2, picked = zoo.flag_internal_sample(ts, rng, k=1)
        return ts2, r
    elif kind == "zero_time_internal_sample":
        fl = t.nodes.flags
        tm = t.nodes.time
        cand = np.setdiff1d(np.unique(ts.edges_parent), ts.samples())
        u = int(rng.choice(cand))
        fl[u] |= 1
        t.nodes.flags = fl
    t.sort()
    t.build_index()
    t.compute_mutation_parents()
    try:
        return t.tree_sequence(), r
    except Exception:
        return ts, r


PATHO = ["unary", "dangling", "disconnected", "multiroot", "gap", "no_mutations", "isolated_mutation",
         "undecodable_metadata", "sparse", "samples_at_root", "zero_time_internal_sample"]


def expected_shape(res, return_fit, return_lik):
    n = 1 + bool(return_fit) + bool(return_lik)
    if n == 1:
        return isinstance(res, tskit.TreeSequence)
    return isinstance(res, tuple) and len(res) == n and isinstance(res[0], tskit.TreeSequence)


def case(ctx, i, rec):
    rng = ctx.rng(i)
    if i % 3 == 0:
        kind = PATHO[(i // 3) % len(PATHO)]
        ts, r = pathological(rng, kind)
    else:
        ts, r = zoo.any_input(rng, allow_inferred=(i % 20 == 1))
        kind = r.get("gen", "zoo")
        if rng.random() < 0.15:
            ts, _ = zoo.decorate(ts, rng)
    method = str(rng.choice(common.METHODS))
    entry = str(rng.choice(["date", "named"]))
    scale = float(rng.choice([1e-6, 1.0, 1.0, 1.0, 1e6, 1e12]))
    mu = common.default_mu(ts, r) / scale
    kw = {"mutation_rate": mu}
    rf, rl = bool(rng.random() < 0.3), bool(rng.random() < 0.3)
    if rf:
        kw["return_fit"] = True
    if rl:
        kw["return_likelihood"] = True
    if method == "variational_gamma":
        kw.update(common.vg_kwargs(rng, small_rescale=bool(rng.random() < 0.5)))
        if ts.num_individuals and rng.random() < 0.3:
            kw["singletons_phased"] = False
    else:
        kw["population_size"] = [r.get("Ne", 100.0) * scale, {"population_size": [50.0 * scale, 500.0 * scale], "time_breaks": [20.0 * scale]}][int(rng.random() < 0.2)]
        if rng.random() < 0.4:
            kw["probability_space"] = str(rng.choice(["linear", "logarithmic"]))
        if rng.random() < 0.3:
            kw["eps"] = float(rng.choice([1e-8, 1e-6, 1e-3]))
        if rng.random() < 0.2:
            kw["num_threads"] = int(rng.choice([1, 2]))
        if method == "inside_outside" and rng.random() < 0.2:
            kw["ignore_oldest_root"] = True
    if rng.random() < 0.3:
        kw["min_branch_length"] = float(rng.choice([1e-12, 1e-3, 1.0]))
    if rng.random() < 0.3:
        kw["constr_iterations"] = int(rng.choice([0, 1, 50]))
    if rng.random() < 0.2:
        kw["allow_unary"] = True
    if rng.random() < 0.2:
        kw["set_metadata"] = [True, False][int(rng.integers(2))]
    # inject one named invalid parameter in a third of the cases
    must_reject = None
    if i % 3 == 1:
        opts = ["rate<=0", "mbl<=0", "constr<0", "unknown_method", "recombination"]
        if method == "variational_gamma":
            opts += ["max_it<=0", "popsize_unused", "priors_unused", "eps_unused", "rate_none"]
        else:
            opts += ["no_popsize_no_priors", "both_popsize_and_priors", "bad_popsize_history", "bad_popsize_history"]
        must_reject = str(rng.choice(opts))
        if must_reject == "rate<=0":
            kw["mutation_rate"] = float(rng.choice([0.0, -1e-8, -1.0]))
        elif must_reject == "rate_none":
            kw["mutation_rate"] = None
        elif must_reject == "mbl<=0":
            kw["min_branch_length"] = float(rng.choice([0.0, -1e-8]))
        elif must_reject == "constr<0":
            kw["constr_iterations"] = [-1, -5, 1.5][int(rng.integers(3))]
        elif must_reject == "max_it<=0":
            kw["max_iterations"] = int(rng.choice([0, -2]))
        elif must_reject == "unknown_method":
            entry, method = "date", "no_such_method"
        elif must_reject == "recombination":
            kw["recombination_rate"] = 1e-8
        elif must_reject == "popsize_unused":
            kw["population_size"] = 100.0
        elif must_reject == "priors_unused":
            try:
                cts, _ = zoo.sim(rng, n=4)
                kw["priors"] = tsdate.build_prior_grid(cts, population_size=100.0)
            except Exception:
                kw["population_size"] = 100.0
        elif must_reject == "eps_unused":
            kw["eps"] = 1e-6
        elif must_reject == "bad_popsize_history":
            b0 = float(rng.choice([1e-3, 20.0, 1e6])) * scale
            kw["population_size"] = [
                {"population_size": [50.0, 500.0, 80.0], "time_breaks": [b0, b0]},            # repeated break
                {"population_size": [50.0, 500.0, 80.0], "time_breaks": [2 * b0, b0]},        # decreasing
                {"population_size": [50.0, 500.0], "time_breaks": [0.0]},                     # break at zero
                {"population_size": [50.0, -5.0], "time_breaks": [b0]},                       # negative size
                {"population_size": [50.0, 0.0], "time_breaks": [b0]},                        # zero size
                {"population_size": [50.0, 500.0], "time_breaks": [b0, 2 * b0]},              # lengths disagree
                {"population_size": [50.0, float("inf")], "time_breaks": [b0]},               # infinite size
                {"population_size": [50.0, 500.0, 80.0, 7.0], "time_breaks": [b0, 3 * b0, 3 * b0]},
            ][int(rng.integers(8))]
        elif must_reject == "no_popsize_no_priors":
            kw.pop("population_size", None)
        elif must_reject == "both_popsize_and_priors":
            try:
                kw["priors"] = tsdate.build_prior_grid(ts, population_size=100.0)
            except Exception:
                must_reject = None
    if method == "variational_gamma" and ts.num_mutations == 0 and must_reject is None:
        must_reject = "no_mutations_vg"
    fn = tsdate.date if entry == "date" else getattr(tsdate, method)
    call_kw = dict(kw)
    if entry == "date":
        call_kw["method"] = method
    rec.sig = zoo.ts_sig(ts, entry, method, tuple(sorted((k, repr(v)[:30]) for k, v in kw.items() if k != "mutation_rate")), scale)
    if i < 4:
        rec.sample = dict(input=kind, entry=entry, method=method, invalid=must_reject,
                          kw={k: repr(v)[:60] for k, v in kw.items()})
    try:
        res = fn(ts, **call_kw)
        exc = None
    except Exception as e:  # noqa
        exc = e
    rec.nontrivial = True
    rec.count(f"calls:{method if method in common.METHODS else 'unknown'}")
    rec.count(f"inputs:{kind}")
    if must_reject:
        rec.count(f"invalid_parameter:{must_reject}")
    if exc is None:
        rec.count("returned")
        if must_reject:
            rec.violation(f"accepted-invalid:{must_reject}:{method}",
                          f"{entry}({method}) accepted {must_reject} ({ {k: kw.get(k) for k in ('mutation_rate', 'min_branch_length', 'constr_iterations', 'max_iterations') if k in kw} }) on a {kind} input")
        elif not expected_shape(res, rf, rl):
            rec.violation("return-shape", f"return_fit={rf} return_likelihood={rl} returned {type(res)} of length {len(res) if isinstance(res, tuple) else 1}")
        return
    if isinstance(exc, ALLOWED):
        if str(exc).strip() == "":
            rec.violation("rejected-without-message:" + common.exc_key(exc)[:50], f"{type(exc).__name__} with an empty message")
        rec.count("rejected_cleanly")
        rec.count("rejected:" + common.exc_key(exc)[:70])
        return
    key = common.exc_key(exc)
    if "Times must be finite" in key:
        # numerical breakdown is keyed by where it happens, so that a new source of NaN is not absorbed
        key += f":{method}:{kw.get('probability_space', 'default-space') if method != 'variational_gamma' else 'gamma'}"
    rec.violation("internal-error:" + key, f"{entry}({method}) on a {kind} input (scale {scale:g}, {must_reject or 'valid parameters'}) raised {key}: {str(exc)[:150]}")


def reach(ctx, agg):
    need = {"returned": 200, "rejected_cleanly": 100}
    for k in ("rate<=0", "mbl<=0", "constr<0", "unknown_method", "max_it<=0", "popsize_unused", "eps_unused", "no_mutations_vg", "bad_popsize_history"):
        need[f"invalid_parameter:{k}"] = 3
    for k in PATHO:
        need[f"inputs:{k}"] = 5
    return [f"{k} = {agg.cnt.get(k, 0)} < {v}" for k, v in need.items() if agg.cnt.get(k, 0) < v]
