"""C26 - changepoint helpers meet their specification.

Reference-model monitor: direct calls of the compiled helpers; fixed changepoints against
exact rational cumulative fractions, Poisson changepoints against an unpruned O(n^2) dynamic
programme (and literal enumeration of all 2^(n-1) segmentations for n <= 12).
"""
import itertools
from fractions import Fraction
from math import inf, log

import numpy as np

from tsdate import rescaling
from vpkit import common

ID = "C26"
N = {"quick": 300, "thorough": 6000}
BUDGET = {"quick": 240.0, "thorough": 900.0}
RULE = ("case = a block of count/offset vectors: exhaustive small vectors (length<=5 over counts {0,1,2,5}, "
        "offsets {0.5,1,3}) in thorough, random vectors up to length 40, penalties and minimum "
        "constraints incl. zero counts and leading zeros; distinct = (helper, vector, parameters); "
        "non-trivial = length >= 2")


def fixed_oracle(counts, epochs):
    """for each interior k: set of acceptable indices"""
    n = len(counts)
    cum = [Fraction(0)]
    for c in counts:
        cum.append(cum[-1] + Fraction(float(c)))
    tot = cum[-1]
    acc = []
    for k in range(epochs + 1):
        target = Fraction(k, epochs)
        exact = max(i for i in range(n + 1) if cum[i] / tot <= target)
        ok = {exact}
        # numerically tied neighbours
        for i in range(n + 1):
            if abs(float(cum[i] / tot - target)) <= 1e-12:
                ok.add(i)
                if i > 0:
                    ok.add(i - 1)
        # all indices sharing the same cumulative value as an acceptable one are the same cut
        acc.append(ok)
    return acc


def loss(y, n, min_counts, min_offset):
    if n < min_offset or y < min_counts:
        return inf
    if y == 0:
        return 0.0
    if n <= 0:
        return inf
    return -2 * y * (log(y) - log(n) - 1)


def poisson_opt(counts, offset, penalty, min_counts, min_offset):
    n = len(counts)
    Nc = np.concatenate([[0.0], np.cumsum(offset)])
    Yc = np.concatenate([[0.0], np.cumsum(counts)])
    F = [inf] * (n + 1)
    F[0] = -penalty
    for j in range(1, n + 1):
        best = inf
        for i in range(j):
            if F[i] == inf:
                continue
            c = F[i] + loss(Yc[j] - Yc[i], Nc[j] - Nc[i], min_counts, min_offset) + penalty
            if c < best:
                best = c
        F[j] = best
    return F[n]


def seg_cost(breaks, counts, offset, penalty, min_counts, min_offset):
    Nc = np.concatenate([[0.0], np.cumsum(offset)])
    Yc = np.concatenate([[0.0], np.cumsum(counts)])
    tot = -penalty
    for i, j in zip(breaks[:-1], breaks[1:]):
        tot += loss(Yc[j] - Yc[i], Nc[j] - Nc[i], min_counts, min_offset) + penalty
    return tot


def brute(counts, offset, penalty, min_counts, min_offset):
    n = len(counts)
    best = inf
    for mask in range(1 << (n - 1)):
        br = [0] + [k + 1 for k in range(n - 1) if mask >> k & 1] + [n]
        best = min(best, seg_cost(br, counts, offset, penalty, min_counts, min_offset))
    return best


def judge_fixed(rec, counts, epochs):
    counts = np.asarray(counts, dtype=float)
    try:
        e = rescaling._fixed_changepoints(counts, epochs)
    except Exception as ex:
        rec.violation("fixed-raised:" + type(ex).__name__, f"counts {counts.tolist()[:10]} epochs {epochs}: {ex!r}")
        return
    e = [int(x) for x in e]
    n = len(counts)
    rec.count("fixed_calls")
    rec.subcase(f"fixed:{counts.tolist()}:{epochs}", nontrivial=n >= 2)
    if len(e) != epochs + 1 or e[0] != 0 or e[-1] != n or any(b < a for a, b in zip(e[:-1], e[1:])):
        rec.violation("fixed-boundaries-malformed", f"counts {counts.tolist()[:12]} epochs {epochs}: returned {e}")
        return
    acc = fixed_oracle(counts, epochs)
    for k in range(1, epochs):
        if e[k] not in acc[k]:
            rec.violation("fixed-interior-boundary-wrong",
                          f"counts {counts.tolist()[:12]} epochs {epochs}: boundary {k} is {e[k]}, specification gives {sorted(acc[k])}")
            return


def pinned_model(counts, offset, penalty, mc, mo):
    """Sequential model of the two recorded defects of the pinned PELT loop (nothing else): a zero-count
    segment costs 0*log(0) = NaN and is never chosen, and the pruning step drops start points whose current
    segment is still infeasible (cost inf).  Returns (breaks, saw_nan, pruned_infeasible)."""
    N = np.append(0, np.cumsum(offset)); Y = np.append(0, np.cumsum(counts))
    dim = len(counts)
    F = np.empty(dim + 1); F[0] = -penalty
    C = {0: []}
    cost = {}
    saw_nan = pruned_inf = False
    with np.errstate(all="ignore"):
        for j in range(1, dim + 1):
            argmin, minval = 0, np.inf
            for i in C:
                n = N[j] - N[i]; y = Y[j] - Y[i]
                fl = inf if (n < mo or y < mc) else -2 * y * (np.log(y) - np.log(n) - 1)
                cost[i] = F[i] + fl + penalty
                if cost[i] != cost[i]:
                    saw_nan = True
                if cost[i] < minval:
                    minval = cost[i]; argmin = i
            F[j] = minval
            for i in list(C):
                if cost[i] > F[j] + penalty:
                    if cost[i] == inf:
                        pruned_inf = True
                    C.pop(i)
            C[j] = C[argmin] + [argmin]
    return C[dim] + [dim], saw_nan, pruned_inf


def judge_poisson(rec, counts, offset, penalty, mc, mo):
    counts = np.asarray(counts, dtype=float)
    offset = np.asarray(offset, dtype=float)
    n = len(counts)
    opt = poisson_opt(counts, offset, penalty, mc, mo)
    if opt == inf:
        rec.count("poisson_skipped_no_feasible_segmentation")
        return
    if n <= 12:
        b = brute(counts, offset, penalty, mc, mo)
        if abs(b - opt) > 1e-9 * max(1.0, abs(b)):
            rec.violation("oracle-self-check", f"DP {opt} vs enumeration {b}")
            return
        rec.count("poisson_enumerated")
    cls = ("zero_counts" if np.any(counts == 0) else "positive_counts") + ("+minimums" if (mc > 0 or mo > 0) else "")
    try:
        br = rescaling._poisson_changepoints(counts, offset, float(penalty), float(mc), float(mo))
    except Exception as ex:
        rec.violation(f"poisson-raised:{cls}:" + type(ex).__name__, f"counts {counts.tolist()[:10]}: {ex!r}")
        return
    br = [int(x) for x in br]
    rec.count("poisson_calls")
    rec.count(f"poisson_calls:{cls}")
    rec.subcase(f"poisson:{counts.tolist()}:{offset.tolist()}:{penalty}:{mc}:{mo}", nontrivial=n >= 2)
    if br[0] != 0 or br[-1] != n or any(b <= a for a, b in zip(br[:-1], br[1:])):
        rec.violation(f"poisson-breaks-malformed:{cls}", f"counts {counts.tolist()[:12]}: returned {br}")
        return
    cost = seg_cost(br, counts, offset, penalty, mc, mo)
    if cost == inf:
        rec.violation(f"poisson-segment-infeasible:{cls}",
                      f"counts {counts.tolist()[:12]} offset {offset.tolist()[:12]} min ({mc},{mo}): returned {br} has an infeasible segment")
        return
    gap = cost - opt
    rec.maxi(f"poisson_gap:{cls}", gap)
    if gap > 1e-9 * max(1.0, abs(opt)):
        # known findings are keyed by mechanism: the result is exactly what the two recorded defects
        # produce AND one of them was triggered on this input; anything else is unexplained
        try:
            mb, saw_nan, pruned_inf = pinned_model(counts, offset, penalty, mc, mo)
        except KeyError:
            mb, saw_nan, pruned_inf = None, False, False
        cause = "+".join(c for c, on in (("nan-loss", saw_nan), ("pruned-infeasible", pruned_inf)) if on)
        how = f"as-recorded-defects:{cause}" if (mb == br and cause) else "unexplained"
        rec.count(f"poisson_not_optimal:{how}")
        rec.violation(f"poisson-not-optimal:{cls}:{how}",
                      f"counts {counts.tolist()[:12]} offset {offset.tolist()[:12]} penalty {penalty} min ({mc},{mo}): "
                      f"returned {br} costs {cost:.6g}, optimum {opt:.6g}")


def exhaustive_vectors():
    out = []
    for n in range(1, 6):
        for cs in itertools.product((0, 1, 2, 5), repeat=n):
            out.append(cs)
    return out


_EXH = None


def case(ctx, i, rec):
    global _EXH
    rng = ctx.rng(i)
    rec.sig = f"block{i}"
    rec.nontrivial = True
    if ctx.tier == "thorough":
        if _EXH is None:
            _EXH = exhaustive_vectors()
        chunk = _EXH[i * 8:(i + 1) * 8]
        for cs in chunk:
            rec.count("exhaustive_vectors")
            if sum(cs) > 0:
                for ep in (1, 2, 3, len(cs), 7):
                    judge_fixed(rec, cs, ep)
            for off in ((1.0,) * len(cs), tuple([0.5, 1.0, 3.0, 1.0, 0.5][: len(cs)])):
                for pen, mc, mo in ((0.0, 0, 0), (2.0, 0, 0), (2.0, 1, 0), (1.0, 2, 1.0), (5.0, 0, 1.5)):
                    judge_poisson(rec, cs, off, pen, mc, mo)
    for _ in range(6):
        n = int(rng.integers(1, 41))
        kind = int(rng.integers(4))
        if kind == 0:
            counts = rng.poisson(3.0, size=n).astype(float)
        elif kind == 1:
            counts = np.round(10 ** rng.uniform(-1, 3, size=n))
        elif kind == 2:
            counts = rng.uniform(0, 5, size=n)
        else:
            counts = rng.poisson(0.7, size=n).astype(float)
            counts[: int(rng.integers(0, max(1, n // 3) + 1))] = 0.0
        if counts.sum() > 0:
            judge_fixed(rec, counts, int(rng.integers(1, 2 * n + 2)))
        offset = 10 ** rng.uniform(-1, 1, size=n) if rng.random() < 0.7 else np.ones(n)
        pen = float(rng.choice([0.0, 0.5, 2.0, 10.0]))
        mc = float(rng.choice([0, 0, 1, 3]))
        mo = float(rng.choice([0, 0, 0.5, 2.0]))
        icounts = np.round(counts) if kind != 2 else counts
        judge_poisson(rec, icounts, offset, pen, mc, mo)


def post(ctx, agg):
    if ctx.tier == "thorough":
        tot = len(exhaustive_vectors())
        agg.extra["exhaustive_subspace_size"] = tot
        agg.extra["exhaustive"] = bool(agg.cnt.get("exhaustive_vectors", 0) >= tot)
        agg.extra["exhaustive_note"] = "all count vectors of length<=5 over {0,1,2,5} x listed offsets/penalties/minimums; random part sampled"


def reach(ctx, agg):
    need = {"fixed_calls": 1000, "poisson_calls": 800, "poisson_enumerated": 100,
            "poisson_calls:positive_counts": 100}
    return [f"{k} = {agg.cnt.get(k, 0)} < {v}" for k, v in need.items() if agg.cnt.get(k, 0) < v]
