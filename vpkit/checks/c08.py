"""C08 - dates depend only on topology, sample times and mutation placement.

Two-run relation monitor: base input vs the same input with data the model must ignore
changed; node/mutation times and the fit's posteriors must be bit-identical.
"""
import json

import msprime
import numpy as np
import tskit

from vpkit import common, pairs, zoo

ID = "C08"
N = {"quick": 200, "thorough": 6000}
BUDGET = {"quick": 240.0, "thorough": 700.0}
RULE = ("case = (zoo input, method, options, 2 perturbation kinds out of node/mutation/site/edge "
        "metadata+schemas, allele strings, populations, provenance, monomorphic sites, individuals "
        "(phased only), migrations, time_units, top-level metadata); distinct by (topology hash, "
        "method, perturbation kind); non-trivial = both runs returned and were compared bit for bit")

KINDS = ["node_md", "mut_md", "site_edge_md", "states", "populations", "provenance",
         "monomorphic", "individuals", "time_units", "toplevel", "migrations"]


def perturb(ts, kind, rng):
    t = ts.dump_tables()
    if kind == "node_md":
        zoo.set_table_metadata(t.nodes, str(rng.choice(zoo.META_KINDS[1:])), rng)
    elif kind == "mut_md":
        zoo.set_table_metadata(t.mutations, str(rng.choice(zoo.META_KINDS[1:])), rng)
    elif kind == "site_edge_md":
        t.sites.metadata_schema = tskit.MetadataSchema(zoo.PERMISSIVE)
        sch = t.sites.metadata_schema
        t.sites.packset_metadata([sch.validate_and_encode_row({"q": j}) for j in range(t.sites.num_rows)])
        t.edges.packset_metadata([bytes([97 + j % 26]) * (1 + j % 3) for j in range(t.edges.num_rows)])
    elif kind == "states":
        t.sites.packset_ancestral_state([str(rng.choice(["A", "ACGT", "", "0", "anc"])) for _ in range(t.sites.num_rows)])
        t.mutations.packset_derived_state([str(rng.choice(["T", "G", "1", "TTT", "", "0"])) for _ in range(t.mutations.num_rows)])
    elif kind == "populations":
        base = t.populations.num_rows
        k = int(rng.integers(1, 4))
        for j in range(k):
            if t.populations.metadata_schema.schema is None:
                t.populations.add_row(metadata=b"")
            else:
                t.populations.add_row(metadata={"name": f"extra{j}", "description": "x"})
        pop = rng.integers(base, base + k, size=t.nodes.num_rows).astype(np.int32)
        t.nodes.population = pop
    elif kind == "provenance":
        if rng.random() < 0.5:
            t.provenances.clear()
        for j in range(int(rng.integers(1, 4))):
            t.provenances.add_row(record=json.dumps({"x": j}), timestamp="2001-01-01T00:00:00")
    elif kind == "monomorphic":
        extra = ts.num_mutations - len(np.unique(ts.mutations_site))
        k = extra if (extra > 0 and rng.random() < 0.7) else int(rng.integers(1, 6))
        return zoo.add_monomorphic_sites(ts, rng, k=k)[0]
    elif kind == "individuals":
        t.individuals.clear()
        ind = np.full(t.nodes.num_rows, tskit.NULL, dtype=np.int32)
        ss = list(ts.samples())
        rng.shuffle(ss)
        while ss:
            k = int(rng.choice([1, 2, 2, 3]))
            grp, ss = ss[:k], ss[k:]
            j = t.individuals.add_row(flags=int(rng.integers(0, 3)))
            for s in grp:
                ind[s] = j
        inner = np.setdiff1d(np.arange(ts.num_nodes), ts.samples())
        if len(inner) and rng.random() < 0.5:
            ind[int(rng.choice(inner))] = t.individuals.add_row()
        t.nodes.individual = ind
    elif kind == "time_units":
        t.time_units = str(rng.choice(["years", "uncalibrated", "generations", "ticks"]))
    elif kind == "toplevel":
        t.metadata_schema = tskit.MetadataSchema(zoo.PERMISSIVE)
        t.metadata = {"a": int(rng.integers(100))}
    elif kind == "migrations":
        t.migrations.clear()
    return t.tree_sequence()


def case(ctx, i, rec):
    rng = ctx.rng(i)
    method = common.METHODS[i % 3]
    k1 = KINDS[i % len(KINDS)]
    k2 = KINDS[int(rng.integers(len(KINDS)))]
    if k1 == "migrations":
        demog = msprime.Demography.island_model([50.0, 50.0], migration_rate=0.05)
        ts = msprime.sim_ancestry({0: 3, 1: 3}, demography=demog, sequence_length=500, ploidy=1,
                                  recombination_rate=1e-3, record_migrations=True,
                                  random_seed=int(rng.integers(1, 2**31)))
        ts = msprime.sim_mutations(ts, rate=2e-3, random_seed=int(rng.integers(1, 2**31)))
        r = dict(gen="migrations", mu=2e-3, Ne=100.0)
        method = "variational_gamma"
        k2 = "node_md"
    elif method == "variational_gamma":
        ts, r = zoo.any_input(rng)
    else:
        ts, r = zoo.any_input(rng, contemporaneous=True)
        if not common.discrete_ok(ts):
            ts, r = zoo.sim(rng)
    if ts.num_mutations == 0:
        ts, r = zoo.sim(rng)
    unary = False
    if k1 != "migrations" and i % 4 == 3:
        # inputs that keep unary nodes, dated with allow_unary=True: the discrete methods then build
        # their prior from a second, internally simplified copy of the input
        full, r = zoo.sim(rng, n=int(rng.integers(5, 12)), L=1e3, mut_per_edge=3.0,
                          rec=float(rng.choice([4.0, 12.0])) / (4 * 100.0 * 1e3), Ne=100.0)
        sub = np.sort(rng.choice(full.samples(), size=max(2, full.num_samples // 2), replace=False))
        cand = full.simplify(sub, keep_unary=True)
        if cand.num_mutations > 0 and (method == "variational_gamma" or common.discrete_ok(cand)):
            ts, unary = cand, True
            r["gen"] = "kept_unary"
            if rng.random() < 0.6:
                k2 = "site_edge_md"
    if k1 == "monomorphic" and rng.random() < 0.7 and not unary:
        # several mutations per site on a multi-tree input, so that counts of sites and
        # mutations can coincide after monomorphic sites are added
        ts, r = zoo.sim(rng, n=int(rng.integers(4, 10)), L=1e3, mut_per_edge=float(rng.choice([1.0, 3.0])))
        ts, _ = zoo.add_recurrent_mutations(ts, rng, k=int(rng.integers(1, 4)))
        r["gen"] = "recurrent_multitree"
        if method != "variational_gamma" and not common.discrete_ok(ts):
            method = "variational_gamma"
    kw = {"mutation_rate": common.default_mu(ts, r)}
    if method == "variational_gamma":
        kw.update(common.vg_kwargs(rng))
    else:
        kw["population_size"] = r.get("Ne", 100.0)
        kw["probability_space"] = str(rng.choice(["linear", "logarithmic"]))
    if unary:
        kw["allow_unary"] = True
        rec.count("inputs_with_unary_nodes")
    ts2 = perturb(perturb(ts, k1, rng), k2, rng)
    a = pairs.run(ts, method, kw)
    rec.sig = zoo.ts_sig(ts, method, k1, k2)
    if i < 3:
        rec.sample = dict(recipe=r, method=method, perturbations=[k1, k2],
                          kw={k: repr(v) for k, v in kw.items()})
    if a.exc is not None:
        rec.count("base_no_return")
        rec.count("no_return:" + common.exc_key(a.exc)[:70])
        return
    b = pairs.run(ts2, method, kw)
    for k in {k1, k2}:
        rec.count(f"kind:{k}")
    rec.count(f"method:{method}")
    if b.exc is not None:
        rec.violation(f"perturbed-run-raised:{common.exc_key(b.exc)[:60]}",
                      f"base returned but with {k1}+{k2} changed date() raised {common.exc_key(b.exc)}",
                      kinds=[k1, k2])
        return
    rec.nontrivial = True
    # mutations are matched by (position, node, order of appearance): re-sorting the tables of the
    # perturbed input may list the mutations of one site in another order
    import collections as _c
    pa = ts.sites_position[ts.mutations_site] if ts.num_mutations else np.array([])
    pb = ts2.sites_position[ts2.mutations_site] if ts2.num_mutations else np.array([])
    slots = _c.defaultdict(list)
    for m2 in range(ts2.num_mutations):
        slots[(float(pb[m2]), int(ts2.mutations_node[m2]))].append(m2)
    mut_map = np.full(ts.num_mutations, -1)
    for m1 in range(ts.num_mutations):
        lst = slots.get((float(pa[m1]), int(ts.mutations_node[m1])))
        if lst:
            mut_map[m1] = lst.pop(0)
    if np.any(mut_map < 0) or ts.num_mutations != ts2.num_mutations:
        rec.count("harness:mutation_matching_failed")
        return
    if not np.array_equal(mut_map, np.arange(ts.num_mutations)):
        rec.count("pairs_with_reordered_mutation_rows")
    devs = pairs.compare(rec, a, b, label=method, mut_map=mut_map)
    # mutation *times* live in the output tables, whose rows date() may have re-sorted within a
    # site (C02 finding): match output rows by (position, output node, order)
    oa = a.ts.sites_position[a.ts.mutations_site] if a.ts.num_mutations else np.array([])
    ob = b.ts.sites_position[b.ts.mutations_site] if b.ts.num_mutations else np.array([])
    slots = _c.defaultdict(list)
    for m2 in range(b.ts.num_mutations):
        slots[(float(ob[m2]), int(b.ts.mutations_node[m2]))].append(m2)
    omap = np.full(a.ts.num_mutations, -1)
    for m1 in range(a.ts.num_mutations):
        lst = slots.get((float(oa[m1]), int(a.ts.mutations_node[m1])))
        if lst:
            omap[m1] = lst.pop(0)
    if np.any(omap < 0):
        devs["mut_node_placement"] = np.inf
    else:
        devs["mut_time"] = common.rel_err(a.mut_times, b.mut_times[omap])
    worst = max(devs.values())
    if worst != 0.0:
        which = max(devs, key=devs.get)
        rec.violation(f"{method}:depends-on:{k1}" if k1 == k2 else f"{method}:depends-on:{k1}+{k2}",
                      f"changing {k1},{k2} changed {which} by {worst:.3g} (must be bit-identical)",
                      kinds=[k1, k2], dev=worst)


def reach(ctx, agg):
    need = {f"kind:{k}": 10 for k in KINDS}
    need.update({f"method:{m}": 20 for m in common.METHODS})
    return [f"{k} = {agg.cnt.get(k, 0)} < {v}" for k, v in need.items() if agg.cnt.get(k, 0) < v]
