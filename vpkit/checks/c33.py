"""C33 - provenance records each call exactly once.

Event-log monitor: the provenance table is the log; every call in a *chain* of calls
(preprocess_ts -> date -> date ...) must append exactly one valid record naming the command
and the parameters used, keep all earlier records byte for byte, and append nothing when
recording is off.
"""
import json

import numpy as np
import tskit

import tsdate
from tsdate.demography import PopulationSizeHistory
from vpkit import common, zoo

ID = "C33"
N = {"quick": 120, "thorough": 4000}
BUDGET = {"quick": 240.0, "thorough": 700.0}
RULE = ("case = a history of 3-4 calls drawn from preprocess_ts (all option combinations incl. "
        "split_disjoint on/off), split_disjoint_nodes, date(method=...) and the named methods, with "
        "record_provenance True/False/None and parameter values of several types (float, int, numpy "
        "scalar, PopulationSizeHistory, dict) on inputs carrying 0-5 earlier records; distinct by "
        "(topology hash, history); non-trivial = history of >=3 calls judged")


_COMMON = {"mutation_rate", "recombination_rate", "time_units", "progress", "population_size"}
_DISC = _COMMON | {"eps", "num_threads", "probability_space", "cache_inside"}
ALLOWED = {
    "variational_gamma": _COMMON | {"max_iterations", "max_shape", "rescaling_intervals", "rescaling_iterations",
                                    "match_segregating_sites", "regularise_roots", "singletons_phased"},
    "inside_outside": _DISC | {"outside_standardize", "ignore_oldest_root"},
    "maximization": _DISC,
    "preprocess_ts": {"minimum_gap", "erase_flanks", "split_disjoint", "filter_populations", "filter_individuals",
                      "filter_sites", "delete_intervals"},
    "split_disjoint_nodes": set(),
}


def prov_rows(ts):
    return [(p.timestamp, p.record) for p in ts.provenances()]


def judge(rec, before, after, recording, command, params, label):
    pb, pa = prov_rows(before), prov_rows(after)
    rec.count(f"calls:{label}")
    if not recording:
        rec.count("calls_with_recording_off")
        if pa != pb:
            rec.violation(f"{label}:provenance-changed-with-recording-off", f"{len(pb)} -> {len(pa)} records")
        return
    if len(pa) != len(pb) + 1:
        rec.violation(f"{label}:not-exactly-one-record", f"{command}: {len(pb)} -> {len(pa)} provenance records (params {list(params)})")
        return
    if pa[:-1] != pb:
        rec.violation(f"{label}:earlier-records-changed", "earlier provenance rows are not byte-identical")
        return
    try:
        doc = json.loads(pa[-1][1])
        tskit.validate_provenance(doc)
    except Exception as e:
        rec.violation(f"{label}:record-invalid", f"{e}")
        return
    if doc.get("software", {}).get("name") != "tsdate":
        rec.violation(f"{label}:software-name", f"{doc.get('software')}")
    pr = doc.get("parameters", {})
    if pr.get("command") != command:
        rec.violation(f"{label}:command", f"recorded command {pr.get('command')!r}, called {command!r}")
    for k, v in params.items():
        if k not in pr:
            rec.violation(f"{label}:parameter-missing:{k}", f"{command}: parameter {k}={v!r} not in the record {sorted(pr)}")
            continue
        want = v
        if isinstance(v, PopulationSizeHistory) or (isinstance(v, dict) and "population_size" in v):
            # judged by meaning, not through tsdate's own serialiser: the recorded value must rebuild
            # the history that was used (same epoch sizes, same time breaks)
            h_in = v if isinstance(v, PopulationSizeHistory) else PopulationSizeHistory(**v)
            try:
                h_rec = PopulationSizeHistory(**pr[k]) if isinstance(pr[k], dict) else None
            except Exception:
                h_rec = None
            rec.count("population_histories_compared")
            if h_rec is None or not (np.array_equal(h_in.time_breaks, h_rec.time_breaks)
                                     and np.array_equal(h_in.population_size, h_rec.population_size)):
                rec.violation(f"{label}:parameter-value:{k}",
                              f"{command}: population_size recorded as {pr[k]!r} does not describe the history used "
                              f"(sizes {(h_in.population_size / 2).tolist()}, breaks {h_in.time_breaks[1:].tolist()})")
            continue
        want = json.loads(json.dumps(want, default=lambda o: o.tolist() if hasattr(o, "tolist") else float(o)))
        if pr[k] != want:
            rec.violation(f"{label}:parameter-value:{k}", f"{command}: {k} recorded as {pr[k]!r}, passed {want!r}")
    # the record describes THIS call: no parameter that belongs to another command
    allowed = ALLOWED.get(command)
    if allowed is not None:
        foreign = sorted(set(pr) - allowed - {"command"})
        if foreign:
            rec.violation(f"{label}:foreign-parameters-in-record",
                          f"{command}: the record lists parameters this call does not take: {foreign}")
    rec.count("records_validated")


def one_call(rec, ts, rng, r, step):
    """returns new ts (or None on failure)"""
    choice = str(rng.choice(["preprocess", "date", "named", "named", "split"]))
    rp = [True, False, None][int(rng.integers(3))]
    if choice == "split":
        kw = {} if rp is None else {"record_provenance": rp}
        out, exc = common.call(tsdate.util.split_disjoint_nodes, ts, **kw)
        if exc is not None:
            rec.count("call_failed:split:" + common.exc_key(exc)[:40])
            return None
        judge(rec, ts, out, rp is not False, "split_disjoint_nodes", {}, "split_disjoint_nodes")
        return out
    if choice == "preprocess":
        kw = {}
        params = {}
        if rng.random() < 0.5:
            kw["minimum_gap"] = params["minimum_gap"] = float(rng.choice([1, 50, 1e6]))
        if rng.random() < 0.5:
            kw["erase_flanks"] = params["erase_flanks"] = bool(rng.random() < 0.5)
        sd = [None, True, False][int(rng.integers(3))]
        if sd is not None:
            kw["split_disjoint"] = params["split_disjoint"] = sd
        if rng.random() < 0.3:
            kw["filter_sites"] = params["filter_sites"] = True
        if rp is not None:
            kw["record_provenance"] = rp
        out, exc = common.call(tsdate.preprocess_ts, ts, **kw)
        if exc is not None:
            rec.count("call_failed:preprocess:" + common.exc_key(exc)[:40])
            return None
        judge(rec, ts, out, rp is not False, "preprocess_ts", params, "preprocess_ts")
        rec.count(f"preprocess:split_disjoint={sd}")
        return out
    method = str(rng.choice(common.METHODS))
    if method != "variational_gamma" and not common.discrete_ok(ts):
        method = "variational_gamma"
    mu = common.default_mu(ts, r)
    mu = [mu, np.float64(mu), float(np.float32(mu))][int(rng.integers(3))]
    kw = {"mutation_rate": mu}
    params = {"mutation_rate": float(mu)}
    if method == "variational_gamma":
        if rng.random() < 0.6:
            kw["max_iterations"] = params["max_iterations"] = int(rng.choice([2, 5]))
        kw["rescaling_intervals"] = params["rescaling_intervals"] = int(rng.choice([0, 3]))
        if rng.random() < 0.3:
            kw["match_segregating_sites"] = params["match_segregating_sites"] = True
    else:
        Ne = r.get("Ne", 100.0)
        form = int(rng.integers(4))
        ps = [Ne, int(max(1, round(Ne))),
              [PopulationSizeHistory([Ne, 2 * Ne], [10.0]), PopulationSizeHistory([Ne]),
               PopulationSizeHistory([Ne, 2 * Ne, Ne / 3], [10.0, 40.0])][int(rng.integers(3))],
              [{"population_size": [Ne, Ne / 2], "time_breaks": [25.0]}, {"population_size": [Ne]},
               {"population_size": [Ne, Ne / 2, 3 * Ne, Ne], "time_breaks": [5.0, 25.0, 300.0]}][int(rng.integers(3))]][form]
        kw["population_size"] = params["population_size"] = ps
        if rng.random() < 0.5:
            kw["eps"] = params["eps"] = float(rng.choice([1e-6, 1e-3]))
        if rng.random() < 0.5:
            kw["probability_space"] = params["probability_space"] = str(rng.choice(["linear", "logarithmic"]))
    if rng.random() < 0.4:
        kw["time_units"] = params["time_units"] = str(rng.choice(["years", "generations"]))
    if choice == "date":
        if rp is not None:
            kw["record_provenance"] = rp
        recording = rp is not False
        # date() documents None as "treated as True"
        out, exc = common.call(tsdate.date, ts, method=method, **kw)
        label = f"date:{method}"
    else:
        if rp is not None:
            kw["record_provenance"] = rp
        recording = rp is not False
        out, exc = common.call(getattr(tsdate, method), ts, **kw)
        label = f"named:{method}"
    if exc is not None:
        rec.count("call_failed:" + label + ":" + common.exc_key(exc)[:40])
        return None
    judge(rec, ts, out, recording, method, params, label)
    return out


def case(ctx, i, rec):
    rng = ctx.rng(i)
    ts, r = zoo.sim(rng, n=int(rng.integers(3, 9)), L=1e3, mut_per_edge=4.0)
    ts = zoo.strip_mutation_times(ts)
    if i % 3 == 0:
        t = ts.dump_tables()
        t.provenances.clear()
        ts = t.tree_sequence()
    elif i % 3 == 1:
        t = ts.dump_tables()
        for j in range(3):
            t.provenances.add_row(record=json.dumps({"software": {"name": "other"}, "j": j}), timestamp=f"200{j}-01-01T00:00:00")
        ts = t.tree_sequence()
    rec.sig = zoo.ts_sig(ts, i)
    steps = 0
    hist = []
    for step in range(int(rng.integers(3, 5))):
        out = one_call(rec, ts, rng, r, step)
        if out is None:
            break
        ts = out
        steps += 1
    if steps >= 3:
        rec.nontrivial = True
        rec.count("histories_of_3plus_calls")
    if i < 3:
        rec.sample = dict(recipe=r, initial_records=int(i % 3), calls=steps,
                          final_commands=[json.loads(p.record).get("parameters", {}).get("command") for p in ts.provenances()][-4:])


def reach(ctx, agg):
    need = {"histories_of_3plus_calls": 50, "records_validated": 150, "calls_with_recording_off": 40,
            "calls:preprocess_ts": 30, "preprocess:split_disjoint=False": 5, "calls:split_disjoint_nodes": 20}
    return [f"{k} = {agg.cnt.get(k, 0)} < {v}" for k, v in need.items() if agg.cnt.get(k, 0) < v]
