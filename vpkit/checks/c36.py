"""C36 - the precomputed prior cache is crash-safe and exact.  (fault enumeration)

1. A real writer process is run under strace; its syscalls on the cache directory
   (openat / write / rename / unlink / ftruncate / close) are the event log.
2. Crash states are enumerated from that log: every prefix of the syscall sequence and,
   inside every write, byte offsets (all of them in the thorough tier); each state is
   materialised in a scratch cache directory and the real reader code is run on it.
3. Live kills: the writer is killed by strace fault injection at its K-th write to the file.
4. Write errors: the writer runs with its file size capped (RLIMIT_FSIZE) so that write(2) fails with EFBIG
   after L bytes, for L at both ends of the file and at random offsets; a later run reads the directory.
5. Schedules: two writers and a reader as real concurrent processes with random start delays;
   their syscalls are logged with timestamps and distinct interleavings are counted.
The reader must always end with the reference table (read or recomputed) and never raise.
"""
import hashlib
import json
import os
import re
import shutil
import subprocess
import sys
import time

import numpy as np

from tsdate import prior
from vpkit import common

ID = "C36"
LEVEL = "fault_enumeration"
N = {"quick": 400, "thorough": 16000}
BUDGET = {"quick": 240.0, "thorough": 1800.0}
RULE = ("state = directory contents after a prefix of the writer's recorded syscalls, cut inside a write at "
        "a byte offset (quick: line boundaries +-3 bytes and 200 random offsets; thorough: every offset); "
        "plus live SIGKILLs at every write and concurrent 2-writers-1-reader schedules; distinct = distinct "
        "directory contents / kill points / syscall interleavings; non-trivial = a partial or missing file")
NTIPS = 300
S = {}

SYSC = "openat,write,rename,renameat,renameat2,unlink,unlinkat,close,ftruncate,fsync"


def child_env(cache_home):
    env = dict(os.environ)
    env["XDG_CACHE_HOME"] = cache_home
    env.pop("NUMBA_BOUNDSCHECK", None)
    env["NUMBA_DISABLE_JIT"] = "1"
    return env


def run_child(cache_home, delay=0.0, strace_out=None, inject=None, timeout=300):
    cmd = [sys.executable, "-m", "vpkit.children.c36_child", str(NTIPS), str(delay)]
    if strace_out or inject:
        pre = ["strace", "-f", "-ttt", "-s", "2000000", "-xx", "-e", f"trace={SYSC}"]
        if inject:
            pre += ["-e", inject]
        pre += ["-o", strace_out or os.devnull]
        cmd = pre + cmd
    p = subprocess.run(cmd, env=child_env(cache_home), capture_output=True, text=True, timeout=timeout)
    line = [ln for ln in p.stdout.splitlines() if ln.startswith("C36CHILD ")]
    return (json.loads(line[0][9:]) if line else None), p


def unhex(s):
    return bytes(int(x, 16) for x in re.findall(r"\\x([0-9a-f]{2})", s))


def parse_trace(path, cache_dir):
    """events on files below cache_dir: list of (time, pid, kind, args)"""
    ev = []
    fds = {}
    cache_dir = cache_dir.encode()
    with open(path) as f:
        for line in f:
            m = re.match(r"(\d+)\s+([\d.]+)\s+(\w+)\((.*)\)\s+=\s+(-?\d+)", line)
            if not m:
                continue
            pid, ts, name, args, ret = int(m.group(1)), float(m.group(2)), m.group(3), m.group(4), int(m.group(5))
            if name == "openat" and ret >= 0:
                q = re.search(r'"((?:\\x[0-9a-f]{2})*)"', args)
                if not q:
                    continue
                p_ = unhex(q.group(1))
                if p_.startswith(cache_dir) and not os.path.isdir(p_):
                    flags = args.split(",")[2] if len(args.split(",")) > 2 else ""
                    fds[(pid, ret)] = p_
                    ev.append((ts, pid, "open", (p_, "O_TRUNC" in flags, "O_CREAT" in flags, "O_WRONLY" in flags or "O_RDWR" in flags, "O_APPEND" in flags)))
            elif name == "write" and ret > 0:
                fd = int(args.split(",")[0])
                if (pid, fd) in fds:
                    q = re.search(r'"((?:\\x[0-9a-f]{2})*)"', args)
                    data = unhex(q.group(1))[:ret] if q else b""
                    ev.append((ts, pid, "write", (fds[(pid, fd)], data)))
            elif name == "close":
                fd = int(args.split(",")[0]) if args.split(",")[0].strip().isdigit() else -1
                if (pid, fd) in fds:
                    ev.append((ts, pid, "close", (fds.pop((pid, fd)),)))
            elif name in ("rename", "renameat", "renameat2") and ret == 0:
                q = re.findall(r'"((?:\\x[0-9a-f]{2})*)"', args)
                if len(q) >= 2:
                    a, b = unhex(q[0]), unhex(q[-1])
                    if a.startswith(cache_dir) or b.startswith(cache_dir):
                        ev.append((ts, pid, "rename", (a, b)))
                        # descriptors that were opened under the old name now write to the new one
                        for k_ in list(fds):
                            if fds[k_] == a:
                                fds[k_] = b
            elif name in ("unlink", "unlinkat") and ret == 0:
                q = re.findall(r'"((?:\\x[0-9a-f]{2})*)"', args)
                if q and unhex(q[-1]).startswith(cache_dir):
                    ev.append((ts, pid, "unlink", (unhex(q[-1]),)))
            elif name == "ftruncate" and ret == 0:
                fd = int(args.split(",")[0])
                if (pid, fd) in fds:
                    ev.append((ts, pid, "ftruncate", (fds[(pid, fd)], int(args.split(",")[1]))))
    return ev


def apply_event(state, kind, a, cut=None):
    """state: dict relative-path -> bytes"""
    if kind == "open":
        p, trunc, creat, wr, app = a
        if wr and (trunc or (creat and p not in state)):
            state[p] = b""
    elif kind == "write":
        p, data = a
        state[p] = state.get(p, b"") + (data if cut is None else data[:cut])
    elif kind == "rename":
        if a[0] in state:
            state[a[1]] = state.pop(a[0])
    elif kind == "unlink":
        state.pop(a[0], None)
    elif kind == "ftruncate":
        state[a[0]] = state.get(a[0], b"")[: a[1]]


def setup(ctx):
    rng = ctx.rng(0)
    base = os.path.join(ctx.scratch, "trace_cache")
    os.makedirs(base, exist_ok=True)
    tr = os.path.join(ctx.scratch, "writer.strace")
    out, p = run_child(base, strace_out=tr)
    S["strace_ok"] = bool(out and out.get("ok") and os.path.exists(tr) and os.path.getsize(tr) > 0)
    cache_dir = os.path.join(base, "tsdate")
    S["writer"] = out
    if not S["strace_ok"]:
        S["why"] = f"strace run failed: {p.stderr[-300:]}"
        return
    ref = out["digest"]
    S["ref"] = ref
    ev = parse_trace(tr, cache_dir)
    S["events"] = [(k, a) for (_, _, k, a) in ev]
    S["event_log"] = [f"{k}({os.path.basename(a[0]).decode()}{', %d bytes' % len(a[1]) if k == 'write' else ''})" for (_, _, k, a) in ev]
    # the reader of the complete state
    rd, _ = run_child(base)
    S["reader_after_complete_write"] = rd
    # enumerate crash states
    states = []
    seen = set()

    def add(st, label):
        key = hashlib.sha256(repr(sorted((k, v) for k, v in st.items())).encode()).hexdigest()
        if key not in seen:
            seen.add(key)
            states.append((dict(st), label))

    st = {}
    add(st, "before anything")
    for k_i, (kind, a) in enumerate(S["events"]):
        if kind == "write":
            data = a[1]
            if ctx.tier == "thorough":
                offs = range(0, len(data) + 1)
            else:
                nl = [j + 1 for j, ch in enumerate(data) if ch == 10]
                offs = set([0, len(data)])
                for b_ in nl[:: max(1, len(nl) // 40)]:
                    offs |= {max(0, b_ - 3), max(0, b_ - 1), b_, min(len(data), b_ + 1), min(len(data), b_ + 3)}
                offs |= set(int(x) for x in rng.integers(0, len(data) + 1, size=100))
                # every offset inside the first and the last rows of each write: a cut inside the
                # very last number leaves a file of the right shape with one wrong value
                offs |= set(range(0, min(len(data), 80) + 1)) | set(range(max(0, len(data) - 80), len(data) + 1))
                offs = sorted(offs)
            for c in offs:
                s2 = dict(st)
                apply_event(s2, kind, a, cut=c)
                add(s2, f"event {k_i} write cut at {c}/{len(data)}")
        apply_event(st, kind, a)
        add(st, f"after event {k_i} {kind}")
    S["states"] = states
    S["cache_dir"] = cache_dir
    N[ctx.tier] = len(states)


def case(ctx, i, rec):
    if not S.get("strace_ok"):
        return
    states = S["states"]
    if i >= len(states):
        return
    st, label = states[i]
    home = os.path.join(ctx.scratch, f"state_{i}")
    d = os.path.join(home, "tsdate")
    os.makedirs(d, exist_ok=True)
    for p, data in st.items():
        with open(os.path.join(d, os.path.basename(p.decode())), "wb") as f:
            f.write(data)
    final = [p for p in st if re.fullmatch(rb"prior_\d+df_.*\.txt", os.path.basename(p))]
    complete = any(hashlib.sha256(st[p]).hexdigest() == S.get("complete_file_digest") for p in final)
    sizes = {os.path.basename(p).decode(): len(v) for p, v in st.items()}
    rec.sig = hashlib.sha256(repr(sorted(st.items())).encode()).hexdigest()[:16]
    rec.nontrivial = True
    rec.count("crash_states")
    if i < 3:
        rec.sample = dict(state=label, files=sizes)
    old = os.environ.get("XDG_CACHE_HOME")
    os.environ["XDG_CACHE_HOME"] = home
    try:
        obj = prior.ConditionalCoalescentTimes(NTIPS)
        tab = np.asarray(obj.approx_priors, dtype=float)
        dig = hashlib.sha256(np.ascontiguousarray(tab).tobytes()).hexdigest()
        if tab.shape != (NTIPS, 2) or dig != S["ref"]:
            kind = "truncated-table-used" if tab.shape[0] < NTIPS else "wrong-table-used"
            rec.violation(f"crash-state:{kind}",
                          f"state '{label}' (files {sizes}): the next run silently used a table of shape {tab.shape} "
                          f"{'equal' if dig == S['ref'] else 'different'} to the reference", state=label)
        else:
            rec.count("states_survived")
    except Exception as e:  # noqa
        rec.violation(f"crash-state:reader-raised:{type(e).__name__}",
                      f"state '{label}' (files {sizes}): the next run raised {type(e).__name__}: {str(e)[:120]}", state=label)
    finally:
        if old is None:
            os.environ.pop("XDG_CACHE_HOME", None)
        else:
            os.environ["XDG_CACHE_HOME"] = old
        shutil.rmtree(home, ignore_errors=True)


def post(ctx, agg):
    if not S.get("strace_ok"):
        agg.errors.append((-1, "strace unavailable: " + S.get("why", "")))
        return
    agg.extra["writer_event_log"] = S["event_log"]
    agg.extra["crash_states_enumerated"] = len(S["states"])
    agg.extra["exhaustive"] = bool(ctx.tier == "thorough" and agg.not_run == 0)
    rd = S.get("reader_after_complete_write")
    agg.cnt["exactness_checks"] += 1
    if not (rd and rd.get("ok") and rd.get("digest") == S["ref"] and rd.get("shape") == [NTIPS, 2]):
        agg.violation("exactness:table-read-back-differs", f"writer computed {S['ref'][:12]}, reader got {rd}")
    # ---- live kills
    nwrites = len([1 for k, a in S["events"] if k == "write"])
    kills = range(1, nwrites + 2) if ctx.tier == "thorough" else range(1, min(nwrites, 3) + 1)
    for K in kills:
        home = os.path.join(ctx.scratch, f"kill_{K}")
        os.makedirs(home, exist_ok=True)
        fpath = os.path.join(home, "tsdate")
        # count only writes to files in the cache directory: -P needs the directory to exist
        os.makedirs(fpath, exist_ok=True)
        try:
            out, p = run_child(home, strace_out=os.path.join(ctx.scratch, f"kill_{K}.strace"),
                               inject=f"inject=write:signal=SIGKILL:when={K + S.get('stdout_writes_before', 0)}")
        except subprocess.TimeoutExpired:
            agg.watchdog.append(f"kill {K}")
            continue
        files = {f: os.path.getsize(os.path.join(fpath, f)) for f in os.listdir(fpath)}
        killed = out is None
        rd, p2 = run_child(home)
        agg.cnt["live_kills"] += 1
        agg.sigs.add(f"kill@{K}:{sorted(files.items())}")
        if killed:
            agg.cnt["live_kills_where_writer_died"] += 1
        if not (rd and rd.get("ok")):
            agg.violation("live-kill:reader-raised", f"writer killed at write #{K} (files left {files}); the next run failed: {rd or p2.stderr[-200:]}")
        elif rd.get("digest") != S["ref"] or rd.get("shape") != [NTIPS, 2]:
            agg.violation("live-kill:truncated-table-used", f"writer killed at write #{K} (files left {files}); the next run used a table of shape {rd.get('shape')}")
        shutil.rmtree(home, ignore_errors=True)
    # ---- write errors: the writer's file size is capped at L bytes (RLIMIT_FSIZE, SIGXFSZ ignored), so its
    # write(2) fails with EFBIG after exactly L bytes, as a full disk or a quota would; the writer may fail,
    # a later run must still end with the reference table
    total = sum(len(a[1]) for k, a in S["events"] if k == "write")
    if total:
        rng_w = ctx.rng(2)
        offs = {0, 1, total // 2, total - 1} | set(range(max(0, total - 28), total))
        offs |= set(int(x) for x in rng_w.integers(0, total, size=4 if ctx.tier == "quick" else 60))
        if ctx.tier == "thorough":
            offs |= set(range(max(0, total - 120), total)) | set(range(0, 40))

        def limited(L):
            def f():
                import resource
                import signal
                signal.signal(signal.SIGXFSZ, signal.SIG_IGN)
                resource.setrlimit(resource.RLIMIT_FSIZE, (L, L))
            return f

        def one(L):
            home = os.path.join(ctx.scratch, f"efbig_{L}")
            os.makedirs(home, exist_ok=True)
            cmd = [sys.executable, "-B", "-m", "vpkit.children.c36_child", str(NTIPS), "0"]
            try:
                pw = subprocess.run(cmd, env=child_env(home), capture_output=True, text=True, timeout=300,
                                    preexec_fn=limited(L))
                line = [ln for ln in pw.stdout.splitlines() if ln.startswith("C36CHILD ")]
                w = json.loads(line[0][9:]) if line else None
                d_ = os.path.join(home, "tsdate")
                files = {f: os.path.getsize(os.path.join(d_, f)) for f in os.listdir(d_)} if os.path.isdir(d_) else {}
                rd, p2 = run_child(home)
                return L, w, files, rd, p2.stderr[-200:]
            except subprocess.TimeoutExpired:
                return L, None, {}, "timeout", ""
            finally:
                shutil.rmtree(home, ignore_errors=True)

        from concurrent.futures import ThreadPoolExecutor
        with ThreadPoolExecutor(8) as ex:
            results = list(ex.map(one, sorted(offs)))
        for L, w, files, rd, err in results:
            if rd == "timeout":
                agg.watchdog.append(f"write error at {L}")
                continue
            agg.cnt["write_error_points"] += 1
            agg.sigs.add(f"efbig@{L}")
            if w is not None and not w.get("ok"):
                agg.cnt["write_error_points_where_writer_failed"] += 1
            if w is not None and w.get("ok") and (w.get("digest") != S["ref"]):
                agg.violation("write-error:writer-used-wrong-table", f"write failing after {L} bytes: the writer itself ended with another table")
            if not (rd and rd.get("ok")):
                agg.violation("write-error:reader-raised", f"write failed after {L} of {total} bytes (files left {files}); the next run failed: {rd or err}")
            elif rd.get("digest") != S["ref"] or rd.get("shape") != [NTIPS, 2]:
                agg.violation("write-error:damaged-table-used",
                              f"write failed after {L} of {total} bytes (files left {files}); the next run silently used a table "
                              f"of shape {rd.get('shape')} that differs from a freshly computed one")
    # ---- schedules: 2 writers + 1 reader, random start delays
    rng = ctx.rng(1)
    ntr = 12 if ctx.tier == "quick" else 150
    inter = set()
    for t in range(ntr):
        home = os.path.join(ctx.scratch, f"sched_{t}")
        os.makedirs(home, exist_ok=True)
        procs = []
        for role in ("w1", "w2", "r"):
            delay = float(rng.uniform(0, 0.08)) + (0.05 if role == "r" and rng.random() < 0.5 else 0.0)
            tr = os.path.join(ctx.scratch, f"sched_{t}_{role}.strace")
            cmd = ["strace", "-f", "-ttt", "-s", "64", "-xx", "-e", f"trace={SYSC}", "-o", tr,
                   sys.executable, "-m", "vpkit.children.c36_child", str(NTIPS), f"{delay:.4f}"]
            procs.append((role, tr, subprocess.Popen(cmd, env=child_env(home), stdout=subprocess.PIPE, stderr=subprocess.PIPE, text=True)))
        outs = {}
        for role, tr, p in procs:
            try:
                o, e = p.communicate(timeout=300)
            except subprocess.TimeoutExpired:
                p.kill()
                agg.watchdog.append(f"schedule {t} {role}")
                continue
            line = [ln for ln in o.splitlines() if ln.startswith("C36CHILD ")]
            outs[role] = json.loads(line[0][9:]) if line else {"ok": False, "error": e[-200:]}
        final, _ = run_child(home)
        outs["final"] = final or {"ok": False, "error": "no output"}
        agg.cnt["schedules"] += 1
        merged = []
        for role, tr, p in procs:
            try:
                for (ts_, pid, kind, a) in parse_trace(tr, os.path.join(home, "tsdate")):
                    if kind in ("open", "write", "rename", "unlink"):
                        merged.append((ts_, role, kind))
            except Exception:
                pass
        merged.sort()
        seq = tuple((r_, k_) for _, r_, k_ in merged)
        inter.add(hashlib.sha256(repr(seq).encode()).hexdigest()[:12])
        # did the processes really overlap on the file?
        roles_in_order = [r_ for r_, _ in seq]
        if any(roles_in_order[j] != roles_in_order[j + 1] for j in range(len(roles_in_order) - 1)) and len(set(roles_in_order)) > 1:
            first = {r_: roles_in_order.index(r_) for r_ in set(roles_in_order)}
            last = {r_: len(roles_in_order) - 1 - roles_in_order[::-1].index(r_) for r_ in set(roles_in_order)}
            if any(first[a_] < last[b_] and first[b_] < last[a_] for a_ in first for b_ in first if a_ < b_):
                agg.cnt["schedules_with_overlapping_file_access"] += 1
        for role, o in outs.items():
            if not o.get("ok"):
                agg.violation(f"schedule:{'reader' if role in ('r', 'final') else 'writer'}-raised",
                              f"trial {t}: process {role} failed: {o.get('error')}; interleaving {seq[:12]}")
            elif o.get("digest") != S["ref"] or o.get("shape") != [NTIPS, 2]:
                agg.violation(f"schedule:{'reader' if role in ('r', 'final') else 'writer'}-used-wrong-table",
                              f"trial {t}: process {role} ended with a table of shape {o.get('shape')}; interleaving {seq[:12]}")
        shutil.rmtree(home, ignore_errors=True)
        for role, tr, p in procs:
            try:
                os.remove(tr)
            except OSError:
                pass
    for h in inter:
        agg.sigs.add("interleaving:" + h)
    agg.extra["distinct_interleavings"] = len(inter)
    agg.samples.append({"writer_syscalls_on_cache_dir": S["event_log"][:12]})


def reach(ctx, agg):
    out = []
    if agg.cnt.get("crash_states", 0) < 100:
        out.append(f"crash_states = {agg.cnt.get('crash_states', 0)} < 100")
    if agg.cnt.get("write_error_points_where_writer_failed", 0) < 10:
        out.append(f"write_error_points_where_writer_failed = {agg.cnt.get('write_error_points_where_writer_failed', 0)} < 10")
    if agg.cnt.get("live_kills", 0) < 2:
        out.append(f"live_kills = {agg.cnt.get('live_kills', 0)} < 2")
    if agg.cnt.get("live_kills_where_writer_died", 0) < 1:
        out.append("no live kill actually killed the writer")
    if agg.cnt.get("schedules", 0) < 8:
        out.append(f"schedules = {agg.cnt.get('schedules', 0)} < 8")
    if agg.extra.get("distinct_interleavings", 0) < 2:
        out.append(f"only {agg.extra.get('distinct_interleavings', 0)} distinct interleavings observed")
    return out
