"""C09 - results are deterministic and independent of thread count.

(a) repeated calls in one process: byte-equal;  (b) fresh processes with different
PYTHONHASHSEED: byte-equal (event log = digests printed by real child processes);
(c) num_threads in {None,1,2,4} with random delays injected into the pool workers and the
arrival order of results logged at Pool.imap_unordered: byte-equal, several distinct arrival
orders must have been observed;  (d) one prior object reused across probability spaces vs
fresh priors.
"""
import hashlib
import json
import multiprocessing.pool
import os
import random
import subprocess
import sys
import time

import numpy as np

import tsdate
from vpkit import common, zoo
from vpkit.children.c09_child import digest

ID = "C09"
N = {"quick": 64, "thorough": 1200}
BUDGET = {"quick": 240.0, "thorough": 700.0}
RULE = ("case kinds: repeat (same call twice in-process), threads (num_threads None/1/2/4 with "
        "injected per-task delays, arrival orders logged), prior-reuse (linear->log->linear on one "
        "prior object vs fresh priors); post phase: 4 fresh processes with PYTHONHASHSEED "
        "0/1/4242/random dating the same files; distinct by (topology hash, method, options, kind); "
        "non-trivial = all runs of the case returned and were compared byte for byte")

_arrivals = []
_orig_imap = multiprocessing.pool.Pool.imap_unordered


def _imap_unordered(self, func, iterable, chunksize=1):
    it = _orig_imap(self, func, iterable, chunksize)

    def gen():
        order = []
        for item in it:
            try:
                order.append(repr(item[0]))
            except Exception:
                order.append("?")
            yield item
        _arrivals.append(order)

    return gen()


multiprocessing.pool.Pool.imap_unordered = _imap_unordered

_orig_lin = tsdate.discrete.Likelihoods._lik_wrapper
_orig_log = tsdate.discrete.LogLikelihoods._lik_wrapper
_jitter = {"on": False}


def _delay(muts_span):
    if _jitter["on"]:
        time.sleep(random.Random(os.getpid() * 7919 + int(time.time() * 1e6) % 99991).random() * 0.004)


def _lin_wrapper(muts_span, dt, mutation_rate, standardize=True):
    _delay(muts_span)
    return _orig_lin(muts_span, dt, mutation_rate, standardize=standardize)


def _log_wrapper(muts_span, dt, mutation_rate, standardize=True):
    _delay(muts_span)
    return _orig_log(muts_span, dt, mutation_rate, standardize=standardize)


tsdate.discrete.Likelihoods._lik_wrapper = staticmethod(_lin_wrapper)
tsdate.discrete.LogLikelihoods._lik_wrapper = staticmethod(_log_wrapper)


def pick_input(rng, method):
    if method == "variational_gamma":
        ts, r = zoo.any_input(rng)
    else:
        ts, r = zoo.any_input(rng, contemporaneous=True, kinds=["sim", "sim", "inferred", "missing", "recurrent"])
        if not common.discrete_ok(ts):
            ts, r = zoo.sim(rng)
    return ts, r


def make_kw(rng, ts, r, method):
    kw = {"mutation_rate": common.default_mu(ts, r)}
    if method == "variational_gamma":
        kw.update(common.vg_kwargs(rng))
        if ts.num_individuals and common.can_unphase(ts) and rng.random() < 0.4:
            kw["singletons_phased"] = False
    else:
        kw["population_size"] = r.get("Ne", 100.0)
        kw["probability_space"] = str(rng.choice(["linear", "logarithmic"]))
    return kw


def case(ctx, i, rec):
    rng = ctx.rng(i)
    kind = ["repeat", "threads", "prior", "threads"][i % 4]
    if kind == "repeat":
        method = common.METHODS[(i // 4) % 3]
        ts, r = pick_input(rng, method)
        kw = make_kw(rng, ts, r, method)
        a, ea = common.date(ts, method, **kw)
        b, eb = common.date(ts, method, **kw)
        rec.sig = zoo.ts_sig(ts, method, kind, tuple(sorted((k, repr(v)) for k, v in kw.items())))
        if i < 4:
            rec.sample = dict(kind=kind, recipe=r, method=method, kw={k: repr(v) for k, v in kw.items()})
        if ea is not None or eb is not None:
            if (ea is None) != (eb is None) or common.exc_key(ea) != common.exc_key(eb):
                rec.violation("repeat:different-outcome", f"first call {ea!r}, second call {eb!r}")
            rec.count("no_return")
            return
        rec.nontrivial = True
        rec.count(f"repeat:{method}")
        if digest(a) != digest(b):
            rec.violation(f"repeat:{method}:not-bit-identical", "two identical calls in one process gave different bytes")
    elif kind == "threads":
        method = ["inside_outside", "maximization"][(i // 4) % 2]
        ts, r = zoo.sim(rng, n=int(rng.integers(6, 16)), L=1e4, mut_per_edge=2.0)
        if rng.random() < 0.3:
            try:
                ts, r = zoo.inferred(rng)
            except Exception:
                pass
        if not common.discrete_ok(ts):
            ts, r = zoo.sim(rng)
        kw = make_kw(rng, ts, r, method)
        digs = {}
        _jitter["on"] = True
        try:
            for nt in (None, 1, 2, 4, 4):
                _arrivals.clear()
                res, exc = common.date(ts, method, num_threads=nt, **kw)
                if exc is not None:
                    rec.count("no_return")
                    rec.count("no_return:" + common.exc_key(exc)[:60])
                    return
                digs.setdefault(digest(res), []).append(nt)
                for order in _arrivals:
                    rec.count("pool_runs")
                    rec.count("pool_tasks", len(order))
                    srt = sorted(order)
                    h = hashlib.sha256(repr([srt.index(x) for x in order]).encode()).hexdigest()[:10]
                    rec.subcase("arrival:" + h, nontrivial=False)
                    rec.count("arrival_order_not_submission_order", int(order != srt and len(order) > 1))
                    rec.mx.setdefault("max_pool_tasks", 0)
                    rec.maxi("max_pool_tasks", len(order))
                    rec.sigs.append("arrival:" + zoo.ts_sig(ts, method)[:6] + h)
        finally:
            _jitter["on"] = False
        rec.sig = zoo.ts_sig(ts, method, kind, tuple(sorted((k, repr(v)) for k, v in kw.items())))
        rec.nontrivial = True
        rec.count(f"threads:{method}")
        if i < 4:
            rec.sample = dict(kind=kind, recipe=r, method=method, kw={k: repr(v) for k, v in kw.items()})
        if len(digs) != 1:
            rec.violation(f"threads:{method}:depends-on-num_threads",
                          f"outputs differ between num_threads settings: {list(digs.values())}")
    else:
        method = ["inside_outside", "maximization"][(i // 4) % 2]
        ts, r = pick_input(rng, method)
        Ne = r.get("Ne", 100.0)
        mu = common.default_mu(ts, r)
        grid = int(rng.integers(4, 22))
        distr = str(rng.choice(["lognorm", "gamma"]))

        def fresh():
            return tsdate.build_prior_grid(ts, population_size=Ne, timepoints=grid, prior_distribution=distr)

        try:
            shared = fresh()
        except Exception as e:
            rec.count("no_return")
            return
        orig_lin = np.array(shared.grid_data, copy=True)
        seq = ["linear", "logarithmic", "linear"] if rng.random() < 0.5 else ["logarithmic", "linear", "logarithmic"]
        rec.sig = zoo.ts_sig(ts, method, kind, grid, distr, tuple(seq))
        worst = 0.0
        for space in seq:
            r1, e1 = common.date(ts, method, mutation_rate=mu, priors=shared, probability_space=space)
            r2, e2 = common.date(ts, method, mutation_rate=mu, priors=fresh(), probability_space=space)
            if e1 is not None or e2 is not None:
                if (e1 is None) != (e2 is None):
                    rec.violation("prior-reuse:different-outcome", f"reused prior: {e1!r}; fresh prior: {e2!r}")
                rec.count("no_return")
                return
            d = common.rel_err(r1.nodes_time, r2.nodes_time)
            worst = max(worst, d)
        rec.maxi("prior_reuse_dev", worst)
        rec.nontrivial = True
        rec.count(f"prior:{method}")
        if worst > 1e-12:
            rec.violation(f"prior-reuse:{method}:results-differ", f"reused prior object gives node times off by {worst:.3g}")
        # the user's object afterwards: a valid prior whose linear content is the original
        space = shared.probability_space
        g = np.array(shared.grid_data, copy=True)
        lin = np.exp(g) if space == "logarithmic" else g
        if space not in ("linear", "logarithmic"):
            rec.violation("prior-reuse:object-space", f"prior object left in space {space!r}")
        else:
            d = common.rel_err(np.where(orig_lin == 0, 0, lin), orig_lin)
            rec.maxi("prior_object_drift", d)
            if d > 1e-12:
                rec.violation("prior-reuse:object-content-changed", f"user's prior object changed by {d:.3g}")


def post(ctx, agg):
    """(b): real fresh processes with different hash seeds"""
    rng = ctx.rng(10**6)
    jobs = []
    ninputs = 4 if ctx.tier == "quick" else 14
    for k in range(ninputs):
        for method in common.METHODS:
            ts, r = pick_input(rng, method)
            if k % 2 == 0:
                ts, _ = zoo.decorate(ts, rng, node_kind="permissive", mut_kind="permissive", individuals="keep", edge_md=False)
            kw = make_kw(rng, ts, r, method)
            kw["record_provenance"] = False
            path = os.path.join(ctx.scratch, f"c09_{k}_{method}.trees")
            ts.dump(path)
            jobs.append({"id": f"{k}:{method}", "path": path, "method": method, "kw": kw})
    jobfile = os.path.join(ctx.scratch, "c09_jobs.json")
    with open(jobfile, "w") as f:
        json.dump(jobs, f)
    seeds = ["0", "1", "4242", "random"]
    procs = []
    for s in seeds:
        env = dict(os.environ)
        env["PYTHONHASHSEED"] = s
        procs.append((s, subprocess.Popen([sys.executable, "-m", "vpkit.children.c09_child", jobfile],
                                          env=env, stdout=subprocess.PIPE, stderr=subprocess.PIPE, text=True)))
    results = {}
    for s, p in procs:
        try:
            out, err = p.communicate(timeout=900)
        except subprocess.TimeoutExpired:
            p.kill()
            agg.watchdog.append(f"fresh-process seed {s}")
            continue
        line = [ln for ln in out.splitlines() if ln.startswith("C09CHILD ")]
        if not line:
            agg.errors.append((-1, f"child with PYTHONHASHSEED={s} produced no result: {err[-500:]}"))
            continue
        results[s] = json.loads(line[0][9:])
    agg.cnt["fresh_processes_completed"] = len(results)
    if len(results) >= 2:
        ref_seed = sorted(results)[0]
        for job in jobs:
            vals = {s: results[s].get(job["id"]) for s in results}
            agg.cnt["fresh_process_jobs_compared"] += 1
            agg.cnt[f"fresh:{job['method']}"] += 1
            agg.sigs.add("fresh:" + job["id"])
            if len(set(vals.values())) != 1:
                agg.violation(f"fresh-process:{job['method']}:depends-on-hash-seed",
                              f"job {job['id']} differs across PYTHONHASHSEED values: {vals}")
    agg.extra["distinct_arrival_orders"] = len([s for s in agg.sigs if s.startswith("arrival:")])
    agg.samples.append({"fresh_process_job": jobs[0]["id"], "kw": {k: repr(v) for k, v in jobs[0]["kw"].items()}})


def reach(ctx, agg):
    out = []
    if agg.cnt.get("fresh_processes_completed", 0) < 4:
        out.append(f"only {agg.cnt.get('fresh_processes_completed', 0)} of 4 fresh processes completed")
    if agg.extra.get("distinct_arrival_orders", 0) < 3:
        out.append(f"only {agg.extra.get('distinct_arrival_orders', 0)} distinct pool arrival orders observed (< 3)")
    for k, v in {"repeat:variational_gamma": 2, "repeat:inside_outside": 2, "repeat:maximization": 2,
                 "threads:inside_outside": 3, "threads:maximization": 3, "prior:inside_outside": 2,
                 "prior:maximization": 2, "pool_runs": 10}.items():
        if agg.cnt.get(k, 0) < v:
            out.append(f"{k} = {agg.cnt.get(k, 0)} < {v}")
    return out
