"""C17 - population-size time transforms are exact and mutually inverse.

Reference-model monitor on PopulationSizeHistory: exact piecewise integral of 1/(2N) in
30-digit arithmetic, round trips, continuity at breakpoints, as_dict() rebuild, and mpmath
quadrature of the gamma density against the natural-time map for gamma_to_natural. A class
invariant (icontract) watches every constructed history.
"""
import mpmath
import numpy as np

from tsdate.demography import PopulationSizeHistory
from vpkit import common

ID = "C17"
N = {"quick": 300, "thorough": 12000}
BUDGET = {"quick": 240.0, "thorough": 700.0}
RULE = ("case = one random history (1-12 epochs, sizes 1e-3..1e12, breaks over many decades) with a "
        "random time vector incl. breakpoints and their floating-point neighbours, and gamma "
        "parameters; distinct by (epochs, sizes, breaks); non-trivial = >=2 epochs")

_inv = {"evals": 0}


class InvariantBroken(Exception):
    pass


def _hist_ok(self):
    _inv["evals"] += 1
    return bool(np.all(np.diff(self.time_breaks) > 0) and self.time_breaks[0] == 0
                and np.all(self.population_size > 0) and np.all(np.diff(self.coalescent_breaks) > 0)
                and self.coalescent_breaks[0] == 0 and np.all(self.coalescent_rate > 0))


try:
    import icontract

    PopulationSizeHistory = icontract.invariant(_hist_ok, error=lambda self: InvariantBroken(
        f"breaks {self.time_breaks} coalescent_breaks {self.coalescent_breaks}"))(PopulationSizeHistory)
    HAVE_ICONTRACT = True
except Exception:  # pragma: no cover
    HAVE_ICONTRACT = False


def coal(t, sizes, breaks):
    edges = [0.0] + list(breaks) + [mpmath.inf]
    tot = mpmath.mpf(0)
    for N_, a, b in zip(sizes, edges[:-1], edges[1:]):
        if t <= a:
            break
        tot += (mpmath.mpf(min(mpmath.mpf(t), b)) - mpmath.mpf(a)) / (2 * mpmath.mpf(N_))
    return tot


def natural_of(x, sizes, breaks):
    """inverse map in high precision"""
    edges = [mpmath.mpf(0)] + [mpmath.mpf(b) for b in breaks]
    cb = [coal(b, sizes, breaks) for b in [0.0] + list(breaks)]
    for e in range(len(sizes) - 1, -1, -1):
        if x >= cb[e]:
            return edges[e] + (x - cb[e]) * 2 * mpmath.mpf(sizes[e])
    return mpmath.mpf(0)


def case(ctx, i, rec):
    mpmath.mp.dps = 30
    rng = ctx.rng(i)
    nep = int(rng.choice([1, 1, 2, 2, 3, 4, 6, 12]))
    lo, hi = (-3, 12) if i % 3 == 0 else (1, 6)
    sizes = [float(10 ** rng.uniform(lo, hi)) for _ in range(nep)]
    if rng.random() < 0.3:
        sizes = [float(np.round(s)) if s >= 1 else s for s in sizes]
    span = float(10 ** rng.uniform(-2, 8))
    breaks = sorted(set(float(span * 10 ** rng.uniform(-3, 0)) for _ in range(nep - 1)))
    while len(breaks) < nep - 1:
        breaks = sorted(set(breaks + [float(span * 10 ** rng.uniform(-3, 0))]))
    rec.sig = f"{nep}:{sizes[:3]}:{breaks[:3]}"
    rec.nontrivial = nep >= 2
    if i < 3:
        rec.sample = dict(sizes=sizes, breaks=breaks)
    try:
        h = PopulationSizeHistory(sizes, breaks) if nep > 1 else (
            PopulationSizeHistory(sizes[0]) if rng.random() < 0.5 else PopulationSizeHistory(sizes))
    except InvariantBroken as e:
        rec.violation("class-invariant-broken", f"sizes {sizes} breaks {breaks}: {e}")
        return
    except Exception as e:
        rec.violation("valid-history-rejected:" + type(e).__name__, f"sizes {sizes} breaks {breaks}: {e!r}")
        return
    rec.count(f"epochs:{nep}")
    rec.count("histories")
    ratio = max(sizes) / min(sizes)
    # time vector: random + breakpoints and neighbours + 0
    ts_ = list(span * 10 ** rng.uniform(-6, 2, size=12)) + [0.0]
    for b in breaks:
        ts_ += [b, float(np.nextafter(b, 0)), float(np.nextafter(b, np.inf))]
    t = np.array(sorted(set(ts_)))
    try:
        c = h.to_coalescent_timescale(t)
        back = h.to_natural_timescale(c)
    except Exception as e:
        rec.violation("transform-raised:" + type(e).__name__, f"{e!r}")
        return
    # the maps act on each time separately: any order of the vector must give the same values
    perm = rng.permutation(len(t))
    try:
        c_p = h.to_coalescent_timescale(t[perm])
        b_p = h.to_natural_timescale(c[perm])
        rec.count("shuffled_vectors_judged")
        if not (np.array_equal(c_p, c[perm]) and np.array_equal(b_p, back[perm])):
            j = int(np.argmax((c_p != c[perm]) | (b_p != back[perm])))
            rec.violation("result-depends-on-order-of-the-time-vector",
                          f"t={t[perm][j]!r}: {c_p[j]!r} in a shuffled vector, {c[perm][j]!r} in the sorted one (sizes {sizes}, breaks {breaks})")
    except Exception as e:
        rec.violation("transform-raised-on-unsorted-times:" + type(e).__name__, f"{e!r}")
    ref = np.array([float(coal(x, sizes, breaks)) for x in t])
    e1 = common.rel_err(c, ref)
    rec.maxi("to_coalescent_relerr", e1)
    rec.count("times_judged", len(t))
    # the implementation adds offsets of mixed sign (t/2N_e + step_e): rounding error is bounded
    # by eps * (largest term), so the residual is judged against that magnitude (DESIGN 3.4)
    edges_ = np.array([0.0] + list(breaks))
    term = np.array([max(edges_[: k + 1].max(), 0) for k in range(len(sizes))])
    scale_c = float(np.max([max(tt, ee) / (2 * N_) for tt in [t.max()] for ee, N_ in zip(edges_, sizes)] +
                           [ee / (2 * N_) for ee, N_ in zip(edges_[1:], sizes[:-1])] + [0.0]))
    tol_c = 1e-10 * np.abs(ref) + 1e-13 * scale_c
    rec.maxi("to_coalescent_err_over_tolerance", float(np.max(np.abs(c - ref) / np.maximum(tol_c, 1e-300))))
    if np.any(np.abs(c - ref) > tol_c):
        j = int(np.argmax(np.abs(c - ref) / np.maximum(tol_c, 1e-300)))
        rec.violation("to_coalescent-not-the-integral", f"t={t[j]!r}: got {c[j]!r}, integral of 1/(2N) = {ref[j]!r} (sizes {sizes}, breaks {breaks})")
    if c[0] != 0 or back[0] != 0:
        rec.violation("zero-not-fixed", f"f(0) = {c[0]!r}, g(0) = {back[0]!r}")
    if np.any(np.diff(c) < -(tol_c[1:] + tol_c[:-1])):
        rec.violation("to_coalescent-not-increasing", "coalescent times decrease with t beyond rounding")
    far = np.diff(t) > 1e-6 * t[1:]
    if ratio <= 1e3 and np.any(np.diff(c)[far] <= 0):
        rec.violation("to_coalescent-not-strictly-increasing", "well-conditioned history: coalescent times not strictly increasing")
    if ratio <= 1e12:
        cb_ = np.array([float(coal(b, sizes, breaks)) for b in [0.0] + list(breaks)])
        scale_n = float(max(np.max(edges_), np.max(cb_ * 2 * np.array(sizes)), t.max()))
        n_cur = []
        for x in t:
            k_ = int(np.searchsorted(edges_, x, side="right") - 1)
            cand = [sizes[k_]]
            if k_ > 0 and x - edges_[k_] <= 1e-6 * x:
                cand.append(sizes[k_ - 1])
            if k_ + 1 < len(sizes) and edges_[k_ + 1] - x <= 1e-6 * x:
                cand.append(sizes[k_ + 1])
            n_cur.append(max(cand))
        n_cur = np.array(n_cur)
        tol_n = 1e-9 * t + 1e-12 * scale_n + 8 * max(sizes) * 1e-13 * scale_c + 2 * n_cur * tol_c * 4
        e2 = float(np.max(np.abs(back[1:] - t[1:]) / tol_n[1:]))
        rec.maxi("round_trip_err_over_tolerance", e2)
        rec.maxi("round_trip_relerr_plain", common.rel_err(back[1:], t[1:]))
        rec.count("round_trips_judged")
        if not (e2 <= 1.0):
            j = 1 + int(np.argmax(np.abs(back[1:] - t[1:]) / tol_n[1:]))
            rec.violation("round-trip-not-identity", f"t={t[j]!r} -> {c[j]!r} -> {back[j]!r} (sizes {sizes}, breaks {breaks})")
    else:
        rec.count("round_trip_skipped_ill_conditioned")
    # continuity at breakpoints of both maps
    for b in breaks:
        tri = np.array([np.nextafter(b, 0), b, np.nextafter(b, np.inf)])
        ci = h.to_coalescent_timescale(tri)
        jump = max(abs(ci[1] - ci[0]), abs(ci[2] - ci[1])) / (1e-9 * abs(ci[1]) + 4e-13 * scale_c)
        rec.maxi("jump_at_break_over_tolerance", jump)
        rec.count("breakpoints_judged")
        if jump > 1.0:
            rec.violation("to_coalescent-discontinuous", f"at break {b!r}: values {ci.tolist()}")
        cb = float(coal(b, sizes, breaks))
        tri2 = np.array([np.nextafter(cb, 0), cb, np.nextafter(cb, np.inf)])
        ni = h.to_natural_timescale(tri2)
        jump2 = max(abs(ni[1] - ni[0]), abs(ni[2] - ni[1])) / (1e-8 * abs(ni[1]) + 1e-11 * (
            float(max(np.max(edges_), b)) + float(cb) * 2 * max(sizes)))
        if jump2 > 1.0 and ratio <= 1e12:
            rec.violation("to_natural-discontinuous", f"at coalescent break {cb!r}: values {ni.tolist()}")
    # as_dict rebuild
    try:
        h2 = PopulationSizeHistory(**h.as_dict())
        same = all(np.array_equal(getattr(h, a), getattr(h2, a)) for a in
                   ("time_breaks", "population_size", "coalescent_breaks", "coalescent_rate"))
        if not same:
            rec.violation("as_dict-rebuild-differs", f"rebuilt history differs (sizes {sizes}, breaks {breaks})")
    except Exception as e:
        rec.violation("as_dict-rebuild-raised", f"{e!r}")
    # gamma_to_natural
    shape = float(10 ** rng.uniform(-0.5, 2))
    mean_c = float(coal(span * 10 ** rng.uniform(-3, 0.5), sizes, breaks))
    if mean_c <= 0:
        return
    rate = shape / mean_c
    try:
        ns, nr = h.gamma_to_natural(shape, rate)
    except Exception as e:
        rec.violation("gamma_to_natural-raised:" + type(e).__name__, f"shape {shape} rate {rate}: {e!r}")
        return
    if nep == 1:
        e = max(abs(ns - shape) / shape, abs(nr - rate / (2 * sizes[0])) / (rate / (2 * sizes[0])))
        rec.maxi("gamma_constant_size_relerr", e)
        rec.count("gamma_constant_size_judged")
        if not (e <= 1e-9):
            rec.violation("gamma_to_natural-constant-size-not-exact",
                          f"N={sizes[0]}: ({shape},{rate}) -> ({ns!r},{nr!r}), exact ({shape},{rate / (2 * sizes[0])!r})")
        return
    # exact moments of g(X), X ~ Gamma(shape, rate), g = piecewise-linear natural-time map:
    # on coalescent epoch [c_e, c_e+1): g(x) = A_e + B_e x, and
    # int x^m f(x) dx = Gamma(shape+m; rate c_e, rate c_e+1) / (Gamma(shape) rate^m), 30 digits
    sh, rt = mpmath.mpf(shape), mpmath.mpf(rate)
    cbs0 = [mpmath.mpf(0)] + [coal(b, sizes, breaks) for b in breaks] + [mpmath.inf]
    tbs = [mpmath.mpf(0)] + [mpmath.mpf(b) for b in breaks]
    lg = mpmath.loggamma(sh)

    def moments(cbs):
        m1 = mpmath.mpf(0)
        m2 = mpmath.mpf(0)
        mag1 = mpmath.mpf(0)
        mag2 = mpmath.mpf(0)
        for e_ in range(len(sizes)):
            lo_, hi_ = cbs[e_], cbs[e_ + 1]
            B = 2 * mpmath.mpf(sizes[e_])
            A = tbs[e_] - B * lo_
            I = [mpmath.gammainc(sh + m_, rt * lo_, rt * hi_) * mpmath.exp(-lg) / rt ** m_ for m_ in range(3)]
            m1 += A * I[0] + B * I[1]
            m2 += A * A * I[0] + 2 * A * B * I[1] + B * B * I[2]
            # magnitudes of what is actually added: each interval mass is itself a difference
            # of two regularised incomplete gamma values of order one
            P = [mpmath.gammainc(sh + m_, 0, rt * hi_, regularized=True) + mpmath.gammainc(sh + m_, 0, rt * lo_, regularized=True)
                 for m_ in range(3)]
            f1, f2 = sh / rt, sh * (sh + 1) / rt ** 2
            mag1 += abs(A) * P[0] + B * f1 * P[1]
            mag2 += A * A * P[0] + 2 * abs(A) * B * f1 * P[1] + B * B * f2 * P[2]
        return m1, m2, mag1, mag2

    m1, m2, mag1, mag2 = moments(cbs0)
    # backward error: the stored coalescent breakpoints carry the rounding of their own
    # cancellation-prone sum (a few ulp of the largest partial sum, cf. tol_c above);
    # the moments of the history with breakpoints moved by that much bound what it can cost
    dc = mpmath.mpf(2e-15 * scale_c)  # ~9 ulp of the largest partial sum
    bw_m = mpmath.mpf(0)
    bw_v = mpmath.mpf(0)
    for sgn in ([1] * 64, [-1] * 64, [(-1) ** k for k in range(64)], [(-1) ** (k + 1) for k in range(64)]):
        pert = [cbs0[0]] + [max(cbs0[k] + sgn[k] * dc, cbs0[k] / 2) for k in range(1, len(cbs0) - 1)] + [cbs0[-1]]
        if any(pert[k + 1] <= pert[k] for k in range(len(pert) - 2)):
            continue
        p1, p2, _, _ = moments(pert)
        bw_m = max(bw_m, abs(p1 - m1))
        bw_v = max(bw_v, abs((p2 - p1 * p1) - (m2 - m1 * m1)))
    var = m2 - m1 * m1
    gm, gv = ns / nr, ns / nr ** 2
    # the closed form sums terms of mixed sign (A_e = t_e - 2N_e c_e can dwarf the result):
    # judge against the magnitude of the terms, as for every cancellation-prone sum (DESIGN 3.4)
    tol_m = 1e-6 * float(m1) + 1e-13 * float(mag1) + 2 * float(bw_m)
    tol_v = 1e-6 * float(var) + 1e-13 * float(mag2 + mag1 * mag1) + 2 * float(bw_v)
    rec.maxi("gamma_backward_error_share_of_tolerance", float(2 * bw_v) / tol_v if tol_v > 0 else 0.0)
    em = abs(gm - float(m1)) / tol_m if np.isfinite(gm) else np.inf
    evv = abs(gv - float(var)) / tol_v if np.isfinite(gv) else np.inf
    rec.maxi("gamma_err_over_tolerance", max(em, evv) if np.isfinite(max(em, evv)) else 1e300)
    rec.maxi("gamma_relerr_plain", max(abs(gm - float(m1)) / float(m1), abs(gv - float(var)) / float(var))
             if np.isfinite(gm) and np.isfinite(gv) else 1e300)
    rec.count("gamma_multi_epoch_judged")
    if float(mag2 + mag1 * mag1) < 1e3 * float(var):
        rec.count("gamma_well_conditioned_judged")
    if not (max(em, evv) <= 1.0):
        key = "gamma_to_natural-moments-off" if (np.isfinite(gm) and np.isfinite(gv)) else "gamma_to_natural-not-finite"
        rec.violation(key, f"sizes {sizes} breaks {breaks} shape {shape} rate {rate}: returned mean/var ({gm!r},{gv!r}), "
                           f"exact ({float(m1)!r},{float(var)!r}); error/tolerance {max(em, evv):.3g}")


def post(ctx, agg):
    agg.extra["icontract_class_invariant"] = HAVE_ICONTRACT
    agg.notes.append("invariant evaluations are counted inside workers only")


def reach(ctx, agg):
    need = {"histories": 150, "shuffled_vectors_judged": 150, "round_trips_judged": 100, "breakpoints_judged": 100,
            "gamma_multi_epoch_judged": 50, "gamma_well_conditioned_judged": 20, "gamma_constant_size_judged": 20}
    return [f"{k} = {agg.cnt.get(k, 0)} < {v}" for k, v in need.items() if agg.cnt.get(k, 0) < v]
