"""C34 - the command-line interface is faithful to the Python API.

Event-log monitor: argv vectors are generated from a grammar over all options; the keyword
arguments that really reach tsdate.date / tsdate.preprocess_ts are recorded at the boundary
and compared with an option table written from the CLI documentation; the file written is
compared with the result of the equivalent API call. Thorough adds real `python -m tsdate`
subprocesses.
"""
import json
import os
import subprocess
import sys

import numpy as np
import tskit

import tsdate
from tsdate import cli
from vpkit import common, zoo

ID = "C34"
N = {"quick": 90, "thorough": 1500}
BUDGET = {"quick": 240.0, "thorough": 700.0}
RULE = ("case = one argv for `tsdate date` or `tsdate preprocess` drawn from a grammar over every option "
        "(values incl. 0, booleans switched off, invalid combinations) on a simulated input file; distinct "
        "by argv; non-trivial = the command ran and kwargs + output file were compared (or the "
        "invalid combination was refused)")

_calls = []
_orig_date, _orig_pre = tsdate.date, tsdate.preprocess_ts


def _date(ts, **kw):
    _calls.append(("date", dict(kw)))
    return _orig_date(ts, **kw)


def _pre(ts, **kw):
    _calls.append(("preprocess_ts", dict(kw)))
    return _orig_pre(ts, **kw)


tsdate.date = _date
tsdate.preprocess_ts = _pre


def tables_equal_sans_provenance(a, b):
    ta, tb = a.dump_tables(), b.dump_tables()
    pa = [json.loads(p.record) for p in ta.provenances]
    pb = [json.loads(p.record) for p in tb.provenances]
    ta.provenances.clear()
    tb.provenances.clear()
    if not ta.equals(tb):
        return "tables differ"
    if len(pa) != len(pb):
        return f"provenance rows {len(pa)} vs {len(pb)}"
    for x, y in zip(pa, pb):
        x.pop("resources", None)
        y.pop("resources", None)
        if x != y:
            return f"provenance record differs: {x.get('parameters')} vs {y.get('parameters')}"
    return None


def gen_date(rng, r):
    method = str(rng.choice(["variational_gamma", "inside_outside", "maximization", None]))
    argv, want = [], {}
    eff = "variational_gamma" if method in (None, "None") else method
    if method not in (None, "None"):
        argv += ["--method", method]
    want["method"] = eff
    mu = float(f"{r['mu']:.6g}")
    argv += [str(rng.choice(["-m", "--mutation-rate"])), repr(mu)]
    want["mutation_rate"] = mu
    invalid = None
    if rng.random() < 0.4:
        b = float(rng.choice([1e-8, 1e-3, 2.5]))
        argv += [str(rng.choice(["-b", "--min-branch-length"])), repr(b)]
        want["min_branch_length"] = b
    else:
        want["min_branch_length"] = 1e-8
    if rng.random() < 0.2:
        argv += [str(rng.choice(["-p", "--progress"]))]
        want["progress"] = True
    else:
        want["progress"] = False
    want["recombination_rate"] = None
    if eff == "variational_gamma":
        if rng.random() < 0.5:
            v = int(rng.choice([0, 0, 1, 3, 50]))
            argv += ["--rescaling-intervals", str(v)]
            want["rescaling_intervals"] = v
        else:
            want["rescaling_intervals"] = None
        if rng.random() < 0.5:
            v = int(rng.choice([0, 1, 2, 7]))
            argv += ["--max-iterations", str(v)]
            want["max_iterations"] = v
            if v == 0:
                invalid = "max_iterations=0 is rejected by the API"
        else:
            want["max_iterations"] = None
        bad = rng.random()
        if bad < 0.08:
            argv += ["-n", "100"]
            invalid = "population size with variational_gamma"
        elif bad < 0.16:
            argv += ["--num-threads", "2"]
            invalid = "num_threads with variational_gamma"
        elif bad < 0.24:
            argv += ["--probability-space", "linear"]
            invalid = "probability_space with variational_gamma"
    else:
        Ne = float(f"{r['Ne']:.6g}")
        argv += [str(rng.choice(["-n", "--population_size"])), repr(Ne)]
        want["population_size"] = Ne
        if rng.random() < 0.5:
            e = float(rng.choice([1e-6, 1e-3, 0.5]))
            argv += [str(rng.choice(["-e", "--epsilon"])), repr(e)]
            want["eps"] = e
        else:
            want["eps"] = 1e-8
        if rng.random() < 0.5:
            ps = str(rng.choice(["linear", "logarithmic"]))
            argv += ["--probability-space", ps]
            want["probability_space"] = ps
        else:
            want["probability_space"] = None
        if rng.random() < 0.3:
            nt = int(rng.choice([1, 2]))
            argv += [str(rng.choice(["-t", "--num-threads"])), str(nt)]
            want["num_threads"] = nt
        else:
            want["num_threads"] = None
        bad = rng.random()
        if bad < 0.1:
            argv += ["--rescaling-intervals", "5"]
            invalid = "rescaling_intervals with a discrete method"
        elif bad < 0.2:
            argv += ["--max-iterations", "5"]
            invalid = "max_iterations with a discrete method"
    return argv, want, invalid


def gen_pre(rng):
    argv, want = [], {}
    if rng.random() < 0.6:
        g = float(rng.choice([1, 20, 500, 1e6]))
        argv += ["--minimum_gap", repr(g)]
        want["minimum_gap"] = g
    else:
        want["minimum_gap"] = 1000000
    for opt, alts, key in (("erase_flanks", ["--erase-flanks", "--trim_telomeres"], "erase_flanks"),
                           ("split_disjoint", ["--split-disjoint"], "split_disjoint")):
        if rng.random() < 0.6:
            val = bool(rng.random() < 0.5)
            argv += [str(rng.choice(alts)), str(rng.choice(["True", "true"] if val else ["False", "false"]))]
            want[key] = val
        else:
            want[key] = True
    return argv, want


def case(ctx, i, rec):
    rng = ctx.rng(i)
    ts, r = zoo.sim(rng, n=int(rng.integers(3, 8)), L=1e3, mut_per_edge=4.0, ploidy=1)
    ts = zoo.strip_mutation_times(ts)
    d = os.path.join(ctx.scratch, f"c34_{i}")
    os.makedirs(d, exist_ok=True)
    inp, outp = os.path.join(d, "in.trees"), os.path.join(d, "out.trees")
    ts.dump(inp)
    sub = "preprocess" if i % 3 == 2 else "date"
    if sub == "date":
        opts, want, invalid = gen_date(rng, r)
    else:
        opts, want = gen_pre(rng)
        invalid = None
    argv = [sub] + opts[: len(opts) // 2 * 0] + [inp, outp] + opts if rng.random() < 0.5 else [sub] + opts + [inp, outp]
    rec.sig = " ".join(a for a in argv if not a.endswith(".trees"))
    if i < 4:
        rec.sample = dict(argv=[a if not a.endswith(".trees") else os.path.basename(a) for a in argv], expected_kwargs=want, invalid=invalid)
    _calls.clear()
    code = 0
    exc = None
    try:
        old_argv = sys.argv
        sys.argv = ["tsdate"] + argv
        try:
            cli.tsdate_main(argv)
        finally:
            sys.argv = old_argv
    except SystemExit as e:
        code = e.code if e.code is not None else 0
    except Exception as e:  # noqa
        exc = e
        code = 1
    wrote = os.path.exists(outp)
    rec.count(f"argv:{sub}")
    if invalid:
        rec.count("invalid_combinations")
        if code in (0, None) and exc is None:
            rec.violation("invalid-combination-accepted", f"`tsdate {rec.sig}`: {invalid}, but the command exited 0")
        if wrote:
            rec.violation("invalid-combination-wrote-output", f"`tsdate {rec.sig}`: {invalid}, yet an output file was written")
        rec.nontrivial = True
        return
    if code not in (0, None) or exc is not None:
        rec.violation("valid-command-failed" + (":" + common.exc_key(exc)[:40] if exc else ""),
                      f"`tsdate {rec.sig}` failed: {exc!r} exit {code!r}")
        return
    if not wrote or not _calls:
        rec.violation("no-output-or-no-api-call", f"`tsdate {rec.sig}`: output written={wrote}, API calls={len(_calls)}")
        return
    name, got = _calls[-1]
    rec.nontrivial = True
    rec.count("commands_compared")
    # kwargs: every option reaches the API with the value given
    for k, v in want.items():
        g = got.get(k, "<absent>")
        if g == "<absent>":
            # absent means the API default is used: only acceptable if the wanted value IS the default
            defaults = {"progress": False, "recombination_rate": None, "min_branch_length": 1e-8, "eps": 1e-8,
                        "rescaling_intervals": None, "max_iterations": None, "probability_space": None,
                        "num_threads": None, "minimum_gap": 1000000, "erase_flanks": True, "split_disjoint": True,
                        "method": "variational_gamma"}
            if k in defaults and (defaults[k] == v or (defaults[k] is None and v is None)):
                continue
            rec.violation(f"option-not-passed:{k}", f"`tsdate {rec.sig}`: {k}={v!r} never reaches tsdate.{name} (kwargs {sorted(got)})")
        elif g != v and not (g is None and v is None):
            rec.violation(f"option-value-changed:{k}", f"`tsdate {rec.sig}`: {k} given as {v!r}, the API received {g!r}")
    # output equals the API result for the intended values
    try:
        if name == "date":
            kw = {k: v for k, v in want.items() if v is not None and k not in ("progress",)}
            ref = _orig_date(ts, **kw)
        else:
            ref = _orig_pre(ts, **want)
        diff = tables_equal_sans_provenance(tskit.load(outp), ref)
        if diff and "provenance record differs" in diff:
            # None-valued parameters recorded by the CLI path are not a difference in what was computed
            a = tskit.load(outp).dump_tables()
            b = ref.dump_tables()
            a.provenances.clear()
            b.provenances.clear()
            diff = None if a.equals(b) else "tables differ"
            rec.count("provenance_parameter_lists_differ(None-valued entries)")
        if diff:
            rec.violation("output-differs-from-api", f"`tsdate {rec.sig}`: {diff}")
    except Exception as e:
        rec.violation("api-reference-call-failed", f"`tsdate {rec.sig}`: equivalent API call raised {common.exc_key(e)}")


def post(ctx, agg):
    """thorough: real subprocesses `python -m tsdate`"""
    if ctx.tier != "thorough":
        return
    rng = ctx.rng(10**6)
    for k in range(8):
        ts, r = zoo.sim(rng, n=5, L=1e3, mut_per_edge=4.0, ploidy=1)
        d = os.path.join(ctx.scratch, f"c34_sub_{k}")
        os.makedirs(d, exist_ok=True)
        inp, outp = os.path.join(d, "in.trees"), os.path.join(d, "out.trees")
        ts.dump(inp)
        mu = float(f"{r['mu']:.6g}")
        argv = ["date", inp, outp, "-m", repr(mu), "--rescaling-intervals", "0"] if k % 2 == 0 else \
            ["preprocess", inp, outp, "--erase-flanks", "False", "--split-disjoint", "False"]
        p = subprocess.run([sys.executable, "-m", "tsdate"] + argv, capture_output=True, text=True, timeout=900,
                           env={k_: v for k_, v in os.environ.items() if k_ != "TSDATE_VERIF"})
        agg.cnt["subprocess_runs"] += 1
        if p.returncode != 0 or not os.path.exists(outp):
            agg.violation("subprocess-failed", f"python -m tsdate {' '.join(argv[:1] + argv[3:])}: exit {p.returncode} {p.stderr[-300:]}")
            continue
        ref = _orig_date(ts, mutation_rate=mu, rescaling_intervals=0) if k % 2 == 0 else \
            _orig_pre(ts, erase_flanks=False, split_disjoint=False)
        a, b = tskit.load(outp).dump_tables(), ref.dump_tables()
        a.provenances.clear()
        b.provenances.clear()
        if not a.equals(b):
            agg.violation("subprocess-output-differs-from-api", f"python -m tsdate {' '.join(argv[:1] + argv[3:])}")
        agg.sigs.add("subprocess:" + " ".join(argv[:1] + argv[3:]) + str(k))


def reach(ctx, agg):
    need = {"commands_compared": 40, "invalid_combinations": 5, "argv:date": 30, "argv:preprocess": 15}
    return [f"{k} = {agg.cnt.get(k, 0)} < {v}" for k, v in need.items() if agg.cnt.get(k, 0) < v]
