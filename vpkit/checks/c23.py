"""C23 - rescaling credits each unphased singleton to its branches by phase probability.

Invariant at an internal hook: the mutation counts that the rescaling step really uses (the
`likelihoods` argument of its first mutational_timescale() call) are compared with counts
rebuilt from scratch: candidate branches come from the trees (edge above each of the
individual's two nodes at the singleton's position), shares from fit.mutation_phase and the
branch the output places the mutation on.
"""
import numpy as np
import tskit

import tsdate
from vpkit import common, rescale_hooks, zoo
from vpkit.checks.c24 import naive_counts

rescale_hooks.install()

ID = "C23"
N = {"quick": 70, "thorough": 5000}
BUDGET = {"quick": 240.0, "thorough": 700.0}
RULE = ("case = (diploid simulation or tsinfer inference with 5-200 singletons, some exactly on tree "
        "breakpoints, singletons_phased=False, match_segregating_sites on/off, rescaling settings); "
        "distinct by (topology hash, options); non-trivial = >=1 unphased singleton entered the rescaling")


def put_singletons_on_breakpoints(ts, rng, k=3):
    """add singletons at exact tree breakpoints (valid positions that start a tree)"""
    t = ts.dump_tables()
    t.mutations.time = np.full(t.mutations.num_rows, tskit.UNKNOWN_TIME)
    used = set(ts.sites_position.tolist())
    bps = [b for b in ts.breakpoints(as_array=True)[1:-1] if float(b) not in used]
    rng.shuffle(bps)
    added = 0
    for b in bps[:k]:
        s = t.sites.add_row(position=float(b), ancestral_state="0")
        t.mutations.add_row(site=s, node=int(rng.choice(ts.samples())), derived_state="1")
        added += 1
    t.sort(); t.build_index(); t.compute_mutation_parents()
    return t.tree_sequence(), added


def case(ctx, i, rec):
    rng = ctx.rng(i)
    if i % 5 == 4:
        try:
            ts, r = zoo.inferred(rng, ploidy=2, n=int(rng.integers(3, 7)))
        except Exception:
            ts, r = zoo.sim(rng, ploidy=2, n=int(rng.integers(2, 8)), L=1e3, mut_per_edge=5.0)
    else:
        ts, r = zoo.sim(rng, ploidy=2, n=int(rng.integers(2, 8)), L=float(rng.choice([1e3, 1e4])),
                        mut_per_edge=float(rng.choice([1.0, 5.0, 20.0])))
    if i % 7 == 6:
        # some leaf parents become (historical, internal) samples: blocks whose two parents have fixed ages
        ts, r = zoo.sim(rng, ploidy=2, n=int(rng.integers(2, 6)), mut_per_edge=6.0, L=1e3)
        leaf_parents = np.unique(ts.edges_parent[np.isin(ts.edges_child, ts.samples())])
        t_ = ts.dump_tables()
        fl = t_.nodes.flags
        pick = rng.choice(leaf_parents, size=max(1, int(len(leaf_parents) * rng.uniform(0.5, 1.0))), replace=False)
        fl[pick] |= 1
        t_.nodes.flags = fl
        ts = t_.tree_sequence()
        r["gen"] = "leaf_parents_fixed"
    nb = 0
    if i % 2 == 0 and ts.num_trees > 1:
        ts, nb = put_singletons_on_breakpoints(ts, rng, k=int(rng.integers(1, 5)))
    if not (ts.num_individuals and common.can_unphase(ts)) or ts.num_mutations == 0:
        rec.count("skipped_not_unphasable")
        return
    seg = bool(i % 3 == 0)
    kw = dict(mutation_rate=common.default_mu(ts, r), singletons_phased=False, match_segregating_sites=seg,
              rescaling_intervals=int(rng.choice([1, 3, 10])), rescaling_iterations=int(rng.choice([1, 3, 5])),
              max_iterations=int(rng.choice([1, 5, 25])), return_fit=True)
    rescale_hooks.start()
    res, exc = common.call(tsdate.variational_gamma, ts, **kw)
    events = rescale_hooks.stop()
    rec.sig = zoo.ts_sig(ts, seg, kw["rescaling_intervals"], kw["max_iterations"])
    if i < 3:
        rec.sample = dict(recipe=r, kw={k: repr(v) for k, v in kw.items()}, singletons_on_breakpoints=nb)
    mt = [e for e in events if e[0] == "mutational_timescale"]
    if exc is not None:
        rec.count("no_return")
        rec.count("no_return:" + common.exc_key(exc)[:60])
        if not mt:
            return
    if not mt:
        rec.count("no_rescaling_event")
        return
    used_counts = mt[0][1][1][:, 0]     # likelihoods argument of the first call, column 0
    ra = [e for e in events if e[0] == "reallocate_unphased"]
    if exc is not None:
        return
    out, fit = res
    issample = common.is_sample(ts)
    base, _, _ = naive_counts(ts, None, size_biased=not seg)
    expected = base.copy()
    pos = ts.sites_position[ts.mutations_site]
    ind_of = ts.nodes_individual
    # all leaf edges of unphased individuals start from zero
    unph_edges = np.array([ind_of[c] != tskit.NULL and issample[c] for c in ts.edges_child])
    expected[unph_edges] = 0.0
    phase = np.asarray(fit.mutation_phase, dtype=float)
    # node posteriors as they were when the singletons were placed (before the rescaling moved them)
    node_mn, node_va = fit.node_moments()
    enter = [e for e in events if e[0] == "rescale:enter"]
    if enter:
        npost = np.asarray(enter[0][2], dtype=float)
        free_ = ~issample
        node_mn, node_va = node_mn.copy(), node_va.copy()
        node_mn[free_] = (npost[free_, 0] + 1) / npost[free_, 1]
        node_va[free_] = node_mn[free_] / npost[free_, 1]
    out_nodes = np.asarray(fit.mutation_nodes)
    n_single = n_switched = n_nan = n_bp = 0
    larger_ok = True
    bpset = set(ts.breakpoints(as_array=True).tolist())
    ind_nodes = {ind.id: [int(x) for x in ind.nodes] for ind in ts.individuals()}
    cand = {}
    for tree in ts.trees():
        for site in tree.sites():
            for mut in site.mutations:
                u = int(mut.node)
                if ind_of[u] != tskit.NULL and issample[u]:
                    a_, b_ = ind_nodes[int(ind_of[u])]
                    cand[mut.id] = (a_, b_, tree.edge(a_), tree.edge(b_))
    for m in range(ts.num_mutations):
        u = int(ts.mutations_node[m])
        if m not in cand:
            continue
        a, b, ea, eb = cand[m]
        if ea == tskit.NULL or eb == tskit.NULL:
            rec.count("singletons_with_missing_branch(skipped)")
            continue
        n_single += 1
        if float(pos[m]) in bpset:
            n_bp += 1
        placed = int(out_nodes[m])
        if placed not in (a, b):
            rec.violation("singleton-placed-outside-its-individual", f"mutation {m}: input node {u}, output node {placed}")
            continue
        if placed != u:
            n_switched += 1
        if np.isnan(phase[m]):
            n_nan += 1
            continue
        e_placed = ea if placed == a else eb
        e_other = eb if placed == a else ea
        if e_placed == e_other:
            expected[e_placed] += 1.0
        else:
            expected[e_placed] += phase[m]
            expected[e_other] += 1.0 - phase[m]
        if phase[m] < 0.5:
            larger_ok = False
        # closed form: both candidate branches hang below nodes of fixed age, so the probability of a
        # branch is its share of the total length and the longer branch is the one to be placed on
        pa_, pb_ = int(ts.edges_parent[ea]), int(ts.edges_parent[eb])
        if ea != eb and pa_ != pb_ and issample[pa_] != issample[pb_]:
            # one branch hangs below a node of fixed age, the other below a dated node: when the posterior
            # of the dated node (mean +- 3 sd) leaves no doubt about which branch is longer, the singleton
            # must sit on that one
            def span_(p_, leaf):
                if issample[p_]:
                    return float(ts.nodes_time[p_] - ts.nodes_time[leaf]), float(ts.nodes_time[p_] - ts.nodes_time[leaf])
                sd = float(np.sqrt(node_va[p_]))
                return max(float(node_mn[p_]) - 3 * sd, 0.0), float(node_mn[p_]) + 3 * sd
            (lo_a, hi_a), (lo_b, hi_b) = span_(pa_, a), span_(pb_, b)
            longer = a if lo_a > hi_b else (b if lo_b > hi_a else None)
            if longer is not None:
                rec.count("singletons_with_one_fixed_parent_and_a_clear_longer_branch")
                if placed != longer:
                    rec.violation("one-parent-fixed:placed-on-the-clearly-shorter-branch",
                                  f"mutation {m}: branch lengths {(lo_a, hi_a)} (node {a}) and {(lo_b, hi_b)} (node {b}); "
                                  f"placed on node {placed} with fitted probability {phase[m]!r}")
        if ea != eb and pa_ != pb_ and issample[pa_] and issample[pb_]:
            la, lb = float(ts.nodes_time[pa_] - ts.nodes_time[a]), float(ts.nodes_time[pb_] - ts.nodes_time[b])
            lp, lo = (la, lb) if placed == a else (lb, la)
            rec.count("singletons_between_two_fixed_parents")
            if lp + lo > 0 and abs(phase[m] - lp / (lp + lo)) > 1e-9:
                rec.violation("both-parents-fixed:phase-is-not-the-branch-length-share",
                              f"mutation {m}: branches of length {la!r} and {lb!r} below fixed nodes; placed on the one of length {lp!r} "
                              f"with fitted probability {phase[m]!r}, the exact value is {lp / (lp + lo)!r}")
    rec.count("unphased_singletons", n_single)
    rec.count("switched_singletons", n_switched)
    rec.count("singletons_on_breakpoints", n_bp)
    rec.count("singletons_with_undefined_phase", n_nan)
    if n_single:
        rec.nontrivial = True
        rec.count("runs_with_unphased_singletons")
        rec.count(f"runs:segsites={seg}")
    dev = np.abs(used_counts - expected)
    tol = 1e-9 * np.maximum(1.0, expected)
    rec.maxi("max_count_deviation", float(dev.max()) if dev.size else 0.0)
    if np.any(dev > tol):
        e = int(np.argmax(dev))
        on_unph = bool(unph_edges[e])
        # mechanism: shares swapped for singletons placed on the block's second branch
        if on_unph and abs(used_counts[unph_edges].sum() - expected[unph_edges].sum()) <= 1e-6 and n_switched > 0:
            key = "share-credited-to-the-branch-the-singleton-was-not-placed-on"
        elif on_unph:
            key = "unphased-branch-count-wrong"
        else:
            key = "count-on-other-branch-changed"
        rec.violation(key, f"edge {e} (child {ts.edges_child[e]}): rescaling used count {used_counts[e]!r}, expected {expected[e]!r}; "
                           f"{n_single} unphased singletons, {n_switched} switched, match_segregating_sites={seg}", edge=e)
    if not larger_ok:
        rec.violation("placed-branch-has-smaller-share", "a singleton's fitted probability for the branch it is placed on is < 0.5")


def reach(ctx, agg):
    need = {"runs_with_unphased_singletons": 60, "switched_singletons": 100, "runs:segsites=True": 15,
            "runs:segsites=False": 30, "singletons_on_breakpoints": 20,
            "singletons_between_two_fixed_parents": 10,
            "singletons_with_one_fixed_parent_and_a_clear_longer_branch": 10}
    return [f"{k} = {agg.cnt.get(k, 0)} < {v}" for k, v in need.items() if agg.cnt.get(k, 0) < v]
