"""C24 - per-edge mutation, span and singleton-block tallies are exact.

Reference-model monitor: naive tallies from ts.trees()/ts.mutations() vs count_mutations
(plain, frequency-weighted, custom sample sets), util.mutation_span_array and block_singletons.
"""
import collections

import numpy as np
import tskit

from tsdate import phasing, rescaling, util
from vpkit import common, zoo

ID = "C24"
N = {"quick": 220, "thorough": 6000}
BUDGET = {"quick": 240.0, "thorough": 700.0}
RULE = ("case = zoo input (recombining, polytomies, missing data, historical samples, mutations above "
        "changing roots and on isolated nodes, diploid individuals) x default and custom sample sets; "
        "distinct by topology hash; non-trivial = >=2 trees; every edge / mutation / block compared")


def naive_counts(ts, sample_mask=None, size_biased=False):
    E = ts.num_edges
    muts = np.zeros(E)
    span = np.zeros(E)
    medge = np.full(ts.num_mutations, tskit.NULL, dtype=np.int64)
    if sample_mask is None:
        sample_mask = np.zeros(ts.num_nodes, dtype=bool)
        sample_mask[ts.samples()] = True
    for tree in ts.trees():
        below = {}
        for u in tree.nodes(order="postorder"):
            below[u] = int(sample_mask[u]) + sum(below[c] for c in tree.children(u))
        for u in tree.nodes():
            e = tree.edge(u)
            if e != tskit.NULL:
                span[e] += tree.span * (below[u] if size_biased else 1.0)
        for site in tree.sites():
            for m in site.mutations:
                e = tree.edge(m.node)
                medge[m.id] = e
                if e != tskit.NULL:
                    muts[e] += below.get(m.node, int(sample_mask[m.node])) if size_biased else 1.0
    return muts, span, medge


def naive_blocks(ts, unphased):
    """per unphased individual: list of (frozenset(edge pair), span, n singletons, left) sorted by left"""
    out = {}
    pos = ts.sites_position[ts.mutations_site] if ts.num_mutations else np.array([])
    for ind in ts.individuals():
        if not unphased[ind.id]:
            continue
        a, b = [int(x) for x in ind.nodes]
        blocks = []
        cur = None
        for tree in ts.trees():
            ea, eb = tree.edge(a), tree.edge(b)
            key = (ea, eb)
            if ea == tskit.NULL or eb == tskit.NULL:
                if cur is not None:
                    blocks.append(cur)
                    cur = None
                continue
            if cur is not None and cur[0] == key and cur[2] == tree.interval.left:
                cur = (key, cur[1], tree.interval.right)
            else:
                if cur is not None:
                    blocks.append(cur)
                cur = (key, tree.interval.left, tree.interval.right)
        if cur is not None:
            blocks.append(cur)
        res = []
        for key, l, r in blocks:
            nm = int(np.sum(((ts.mutations_node == a) | (ts.mutations_node == b)) & (pos >= l) & (pos < r)))
            res.append((frozenset(key) if key[0] != key[1] else frozenset([key[0]]), r - l, nm, l))
        out[ind.id] = res
    return out


def compare_counts(rec, ts, label, got, want_m, want_s, want_e):
    stats, medge = got
    if stats.shape != (ts.num_edges, 2) or medge.shape != (ts.num_mutations,):
        rec.violation(f"{label}:shape", f"returned shapes {stats.shape}, {medge.shape}")
        return
    tol_m = 1e-9 * np.maximum(1.0, np.abs(want_m))
    if np.any(np.abs(stats[:, 0] - want_m) > tol_m):
        e = int(np.flatnonzero(np.abs(stats[:, 0] - want_m) > tol_m)[0])
        rec.violation(f"{label}:mutation-count", f"edge {e}: count {stats[e, 0]!r}, direct tally {want_m[e]!r}", edge=e)
    tol_s = 1e-9 * np.maximum(1e-300, np.abs(want_s)) + 1e-12 * ts.sequence_length * max(1, ts.num_samples)
    if np.any(np.abs(stats[:, 1] - want_s) > tol_s):
        e = int(np.flatnonzero(np.abs(stats[:, 1] - want_s) > tol_s)[0])
        rec.violation(f"{label}:span", f"edge {e}: span {stats[e, 1]!r}, direct tally {want_s[e]!r}", edge=e)
    if not np.array_equal(np.asarray(medge, dtype=np.int64), want_e):
        m = int(np.flatnonzero(np.asarray(medge) != want_e)[0])
        rec.violation(f"{label}:mutation-edge", f"mutation {m}: mapped to edge {medge[m]}, tskit says {want_e[m]}", mutation=m)
    rec.count(f"edges_compared:{label}", ts.num_edges)
    rec.count(f"mutations_compared:{label}", ts.num_mutations)


def case(ctx, i, rec):
    rng = ctx.rng(i)
    k = i % 6
    if k == 0:
        ts, r = zoo.sim(rng, n=int(rng.integers(3, 12)), L=1e3)
        ts = zoo.strip_mutation_times(ts)
        ts, _ = zoo.add_root_mutations(ts, rng, k=int(rng.integers(1, 6)))
        r["gen"] = "rootmut_multitree"
    elif k == 1:
        # missing data with mutations on isolated nodes and in gaps
        ts, r = zoo.sim(rng, n=int(rng.integers(4, 12)), L=1e3, mut_per_edge=8.0)
        t = ts.dump_tables()
        t.mutations.time = np.full(t.mutations.num_rows, tskit.UNKNOWN_TIME)
        a, b = sorted(rng.integers(1, 999, size=2))
        if b > a:
            t.delete_intervals([[int(a), int(b)]], simplify=False, record_provenance=False)
        # re-add a mutation inside the gap on a sample (isolated there)
        x = float((a + b) // 2) + 0.5
        if b > a and x not in set(t.sites.position.tolist()):
            s = t.sites.add_row(position=x, ancestral_state="0")
            t.mutations.add_row(site=s, node=int(rng.choice(ts.samples())), derived_state="1")
        t.sort()
        t.build_index()
        t.compute_mutation_parents()
        ts = t.tree_sequence()
        r["gen"] = "gap_with_isolated_mutation"
    elif k == 2:
        ts, r = zoo.sim(rng, ploidy=2, n=int(rng.integers(2, 7)), L=1e3, mut_per_edge=4.0)
    else:
        ts, r = zoo.any_input(rng, allow_inferred=(i % 12 == 3))
    rec.sig = zoo.ts_sig(ts)
    rec.nontrivial = ts.num_trees >= 2
    if i < 3:
        rec.sample = dict(recipe=r, trees=ts.num_trees, edges=ts.num_edges, mutations=ts.num_mutations)
    rec.count(f"inputs:{r.get('gen')}")
    # util.mutation_span_array
    try:
        ms, me = util.mutation_span_array(ts)
        wm, wsp, we = naive_counts(ts)
        compare_counts(rec, ts, "mutation_span_array", (ms, me), wm, ts.edges_right - ts.edges_left, we)
    except Exception as e:
        rec.violation("mutation_span_array-raised:" + common.exc_key(e)[:40], f"{e!r}")
    # count_mutations plain / size biased
    for sb in (False, True):
        label = "size_biased" if sb else "plain"
        try:
            got = rescaling.count_mutations(ts, size_biased=sb)
        except Exception as e:
            rec.violation(f"count_mutations-raised:{label}:" + common.exc_key(e)[:40], f"{e!r}")
            continue
        wm, wsp, we = naive_counts(ts, None, sb)
        compare_counts(rec, ts, label, got, wm, wsp, we)
    # custom sample sets
    for trial in range(2):
        mask = np.zeros(ts.num_nodes, dtype=bool)
        if trial == 0:
            ss = ts.samples()
            mask[rng.choice(ss, size=max(1, len(ss) // 2), replace=False)] = True
        else:
            mask[rng.choice(ts.num_nodes, size=max(1, ts.num_nodes // 3), replace=False)] = True
        sb = bool(rng.random() < 0.7)
        try:
            got = rescaling.count_mutations(ts, node_is_sample=mask, size_biased=sb)
        except Exception as e:
            rec.violation("custom-sample-set-raised:" + common.exc_key(e)[:50],
                          f"count_mutations(node_is_sample=<mask of length num_nodes>, size_biased={sb}) raised {common.exc_key(e)}")
            continue
        wm, wsp, we = naive_counts(ts, mask, sb)
        compare_counts(rec, ts, "custom_set", got, wm, wsp, we)
        rec.count("custom_sample_sets")
    # singleton blocks
    if ts.num_individuals and common.can_unphase(ts):
        unph = np.ones(ts.num_individuals, dtype=bool)
        if rng.random() < 0.4:
            unph = rng.random(ts.num_individuals) < 0.6
        try:
            bstats, bedges, mblock = phasing.block_singletons(ts, unph)
        except Exception as e:
            rec.violation("block_singletons-raised:" + common.exc_key(e)[:40], f"{e!r}")
            return
        want = naive_blocks(ts, unph)
        got = collections.defaultdict(list)
        for bi in range(bedges.shape[0]):
            e0, e1 = int(bedges[bi, 0]), int(bedges[bi, 1])
            ind = int(ts.nodes_individual[ts.edges_child[e0]])
            got[ind].append((frozenset([e0, e1]), float(bstats[bi, 1]), int(round(bstats[bi, 0])), bi))
        for ind, wl in want.items():
            gl = got.get(ind, [])
            a = [(x[0], round(x[1], 9), x[2]) for x in wl]
            b = [(x[0], round(x[1], 9), x[2]) for x in gl]
            rec.count("blocks_compared", len(a))
            if a != b:
                # mechanism check: singletons that lie where the individual has fewer than two
                # leaf branches (inside no block) but were added to a block's count
                nodes_ = [int(x) for x in ts.individual(ind).nodes]
                pos_ = ts.sites_position[ts.mutations_site]
                on = np.isin(ts.mutations_node, nodes_)
                inside = np.zeros(ts.num_mutations, dtype=bool)
                for x in wl:
                    inside |= on & (pos_ >= x[3]) & (pos_ < x[3] + x[1])
                orphans = int(np.sum(on & ~inside))
                same_shape = [(x[0], x[1]) for x in a] == [(x[0], x[1]) for x in b]
                if same_shape and orphans > 0 and sum(x[2] for x in b) - sum(x[2] for x in a) in range(1, orphans + 1) \
                        and all(y[2] >= x[2] for x, y in zip(a, b)):
                    rec.violation("singletons-outside-any-block-counted-in-a-block",
                                  f"individual {ind}: {orphans} singleton(s) lie where the individual has <2 leaf branches, yet block counts are {[x[2] for x in b]} instead of {[x[2] for x in a]}", individual=ind)
                else:
                    rec.violation("singleton-blocks-wrong", f"individual {ind}: blocks {b[:4]} expected {a[:4]}", individual=ind)
                break
        pos = ts.sites_position[ts.mutations_site] if ts.num_mutations else np.array([])
        for m in range(ts.num_mutations):
            u = ts.mutations_node[m]
            ind = ts.nodes_individual[u]
            is_unph = ind != tskit.NULL and unph[ind] and common.is_sample(ts)[u]
            if not is_unph:
                if mblock[m] != tskit.NULL:
                    rec.violation("mutation-wrongly-blocked", f"mutation {m} on node {u} is not an unphased singleton but has block {mblock[m]}")
                    break
                continue
            wl = want.get(int(ind), [])
            exp = [j for j, x in enumerate(wl) if x[3] <= pos[m] < x[3] + x[1]]
            gl = got.get(int(ind), [])
            if exp:
                want_bi = gl[exp[0]][3] if exp[0] < len(gl) else None
                rec.count("singletons_compared")
                if mblock[m] != want_bi:
                    rec.violation("singleton-mapped-to-wrong-block", f"mutation {m} at {pos[m]}: block {mblock[m]}, expected {want_bi}", mutation=m)
                    break
        rec.count("block_inputs")


def reach(ctx, agg):
    need = {"edges_compared:plain": 2000, "edges_compared:size_biased": 2000, "custom_sample_sets": 50,
            "blocks_compared": 100, "singletons_compared": 100, "inputs:rootmut_multitree": 10,
            "inputs:gap_with_isolated_mutation": 10}
    return [f"{k} = {agg.cnt.get(k, 0)} < {v}" for k, v in need.items() if agg.cnt.get(k, 0) < v]
