"""C03 - sample times are kept, except for the minimal push above dated children.

Monitor: postcondition on every return of date(); oracle recomputes, for each sample, the
only value the statement allows, bit for bit.
"""
import numpy as np
import tskit

from vpkit import common, zoo

ID = "C03"
N = {"quick": 320, "thorough": 8000}
BUDGET = {"quick": 240.0, "thorough": 700.0}
RULE = ("case = (input with historical / internal / contemporaneous samples, method, "
        "constr_iterations, min_branch_length, mutation-rate scale that pushes children above or "
        "below their sample parent); distinct by (topology hash, options); non-trivial = at "
        "least one sample with children was judged")

CI = [None, 0, 1, 5, 100, 1000]
MBL = [None, 1e-12, 1e-8, 1e-3, 1.0, 50.0]


def minimal_push(t_in, child_out, mbl):
    lo = t_in
    for c in child_out:
        need = max(c + mbl, np.nextafter(c, np.inf))
        if need > lo:
            lo = need
    return lo


def case(ctx, i, rec):
    rng = ctx.rng(i)
    kind = ["internal_sample", "historical", "internal_sample", "hist_internal", "sim", "inferred_internal"][i % 6]
    if kind == "internal_sample":
        ts, r = zoo.sim(rng, n=int(rng.integers(3, 12)))
        ts, picked = zoo.flag_internal_sample(ts, rng, k=int(rng.integers(1, 4)))
    elif kind == "historical":
        ts, r = zoo.sim_historical(rng); ts, _ = zoo.extra_flags(ts, rng) if rng.random() < 0.7 else (ts, 0)
    elif kind == "hist_internal":
        ts, r = zoo.sim_historical(rng); ts, _ = zoo.extra_flags(ts, rng) if rng.random() < 0.7 else (ts, 0)
        ts, picked = zoo.flag_internal_sample(ts, rng, k=int(rng.integers(1, 3)))
    elif kind == "inferred_internal":
        try:
            ts, r = zoo.inferred(rng)
        except Exception:
            ts, r = zoo.sim(rng)
        ts, picked = zoo.flag_internal_sample(ts, rng, k=2)
    else:
        ts, r = zoo.sim(rng)
    r["gen"] = kind
    method = "variational_gamma"
    if kind == "sim" and rng.random() < 0.6:
        method = str(rng.choice(["inside_outside", "maximization"]))
    scale = float(rng.choice([0.03, 0.1, 0.3, 1.0, 1.0, 3.0, 10.0, 100.0]))
    kw = {"mutation_rate": common.default_mu(ts, r) / scale}
    ci = CI[int(rng.integers(len(CI)))]
    mbl = MBL[int(rng.integers(len(MBL)))]
    if ci is not None:
        kw["constr_iterations"] = ci
    if mbl is not None:
        kw["min_branch_length"] = mbl
    if method == "variational_gamma":
        kw.update(common.vg_kwargs(rng))
    else:
        kw["population_size"] = r.get("Ne", 100.0) * scale
    res, exc = common.date(ts, method, **kw)
    rec.sig = zoo.ts_sig(ts, method, ci, mbl, scale)
    if i < 4:
        rec.sample = dict(recipe=r, method=method, kw={k: repr(v) for k, v in kw.items()})
    if exc is not None:
        rec.count("no_return")
        rec.count("no_return:" + common.exc_key(exc)[:70])
        return
    rec.count("returned")
    rec.count(f"returned:{method}")
    eff_mbl = 1e-8 if mbl is None else mbl
    tin, tout = ts.nodes_time, res.nodes_time
    kids = {}
    for p, c in zip(ts.edges_parent, ts.edges_child):
        kids.setdefault(int(p), set()).add(int(c))
    n_with = 0
    for s in ts.samples():
        s = int(s)
        ch = kids.get(s)
        if not ch:
            rec.count("samples_without_children")
            if tout[s] != tin[s]:
                rec.violation("childless-sample-moved",
                              f"sample {s} without children: time {tin[s]!r} -> {tout[s]!r}",
                              node=s)
            continue
        n_with += 1
        rec.count("samples_with_children")
        want = minimal_push(tin[s], [tout[c] for c in ch], eff_mbl)
        if tout[s] != want:
            key = "sample-pushed-too-far" if tout[s] > want else "sample-not-pushed-enough"
            if want == tin[s]:
                key = "sample-moved-without-need"
            rec.violation(key, f"sample {s}: in {tin[s]!r}, oldest child out "
                               f"{max(tout[c] for c in ch)!r}, mbl {eff_mbl}: expected {want!r} got {tout[s]!r}",
                          node=s)
        if want != tin[s]:
            rec.count("samples_pushed")
        else:
            rec.count("samples_with_children_not_pushed")
    if n_with:
        rec.nontrivial = True
    if np.any(tin[ts.samples()] > 0):
        rec.count("cases_with_historical")


def reach(ctx, agg):
    need = {"samples_with_children": 20, "samples_pushed": 5, "samples_with_children_not_pushed": 5,
            "samples_without_children": 200, "cases_with_historical": 20}
    return [f"{k} = {agg.cnt.get(k, 0)} < {v}" for k, v in need.items() if agg.cnt.get(k, 0) < v]
