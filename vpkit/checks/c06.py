"""C06 - changing time units rescales all outputs exactly.

Two-run relation monitor: base call vs call with mutation_rate/c, min_branch_length*c
(discrete: population_size*c, eps*c, user timepoints*c; historical sample times*c).
Powers of two must scale to 1e-12 (measured bit-exact); general c to 1e-6. A deviation at
general c is the known 'near-tie' finding only if the mechanism was *observed* in the
recorded mutational_timescale() calls of that pair.
"""
import numpy as np

import tsdate
from vpkit import common, pairs, zoo

ID = "C06"
N = {"quick": 130, "thorough": 5000}
BUDGET = {"quick": 240.0, "thorough": 700.0}
RULE = ("case = (zoo input, method, option set, one power-of-two and one general scale factor c); "
        "distinct by (topology hash, method, options, factors); non-trivial = base and both "
        "scaled runs returned and node/mutation times and posterior moments were compared")

GENERAL = [1e-6, 0.37, 3.0, 365.25, 28.0, 1e6, 0.001234, 17.5]


def build(ctx, i):
    rng = ctx.rng(i)
    method = common.METHODS[i % 3]
    if method == "variational_gamma":
        ts, r = zoo.any_input(rng, kinds=["sim", "sim", "historical", "inferred", "handmade",
                                         "missing", "rootmut", "internal_sample", "recurrent"])
    else:
        ts, r = zoo.any_input(rng, contemporaneous=True,
                              kinds=["sim", "sim", "inferred", "handmade", "missing", "recurrent"])
        if not common.discrete_ok(ts):
            ts, r = zoo.sim(rng)
    unary = False
    if i % 8 == 5:
        # an input that keeps unary nodes, dated with allow_unary=True (second pass of the span tables)
        full, r2 = zoo.sim(rng, n=int(rng.integers(6, 14)), L=1e3, mut_per_edge=3.0,
                           rec=float(rng.choice([4.0, 12.0])) / (4 * 100.0 * 1e3), Ne=100.0)
        sub = np.sort(rng.choice(full.samples(), size=max(2, full.num_samples // 2), replace=False))
        cand = full.simplify(sub, keep_unary=True)
        if cand.num_mutations > 0:
            ts, r, unary = cand, dict(r2, gen="kept_unary"), True
        if (i // 8) % 2 == 0:
            # a chain of unary nodes below a unary root that coalesces elsewhere (spans are lent)
            cand, r2 = zoo.unary_chain(rng)
            if cand.num_mutations > 0:
                ts, r, unary = cand, r2, True
    kw = {"mutation_rate": common.default_mu(ts, r)}
    if unary:
        kw["allow_unary"] = True
    mbl = [None, 1e-8, 1e-3, 1.0, 30.0][int(rng.integers(5))]
    if mbl is not None:
        kw["min_branch_length"] = mbl
    extra = {}
    if method == "variational_gamma":
        kw.update(common.vg_kwargs(rng))
        if ts.num_individuals and common.can_unphase(ts) and rng.random() < 0.3:
            kw["singletons_phased"] = False
    else:
        Ne = r.get("Ne", 100.0)
        kw["probability_space"] = str(rng.choice(["linear", "logarithmic"]))
        if rng.random() < 0.5:
            kw["eps"] = float(10 ** rng.uniform(-9, -2))
        mode = 0 if unary else int(rng.integers(3))
        if mode == 0:
            kw["population_size"] = Ne
        elif mode == 1:
            extra["grid"] = int(rng.integers(3, 25))
            extra["Ne"] = Ne
            extra["distr"] = str(rng.choice(["lognorm", "gamma"]))
        else:
            tp = np.concatenate([[0.0], np.sort(np.unique(10 ** rng.uniform(-1, 1.5, size=int(rng.integers(2, 15))))) * Ne])
            extra["grid"] = tp
            extra["Ne"] = Ne
            extra["distr"] = str(rng.choice(["lognorm", "gamma"]))
    return ts, r, method, kw, extra, rng


def scaled_call(ts, method, kw, extra, c):
    k = dict(kw)
    k["mutation_rate"] = kw["mutation_rate"] / c
    k["min_branch_length"] = kw.get("min_branch_length", 1e-8) * c
    tsc = ts
    if not common.contemporaneous(ts):
        tsc = zoo.rescale_time(ts, c)
    if method != "variational_gamma":
        k["eps"] = kw.get("eps", 1e-8) * c
        if "population_size" in kw:
            k["population_size"] = kw["population_size"] * c
        if extra:
            grid = extra["grid"]
            grid = grid if isinstance(grid, int) else grid * c
            k["priors"] = tsdate.build_prior_grid(tsc, population_size=extra["Ne"] * c, timepoints=grid,
                                                  prior_distribution=extra["distr"])
    return tsc, k


def case(ctx, i, rec):
    ts, r, method, kw, extra, rng = build(ctx, i)
    k2 = int(rng.integers(-40, 41))
    cs = [(2.0 ** k2, 1e-12, "pow2"), (float(GENERAL[int(rng.integers(len(GENERAL)))]), 1e-6, "general")]
    base_ts, base_kw = scaled_call(ts, method, kw, extra, 1.0)
    a = pairs.run(base_ts, method, base_kw)
    rec.sig = zoo.ts_sig(ts, method, tuple(sorted((k, repr(v)) for k, v in kw.items() if k != "mutation_rate")),
                         k2, cs[1][0], repr(extra.get("grid", None))[:40])
    if i < 3:
        rec.sample = dict(recipe=r, method=method, kw={k: repr(v) for k, v in kw.items()},
                          factors=[cs[0][0], cs[1][0]])
    if kw.get("allow_unary"):
        rec.count("inputs_with_unary_nodes")
    if a.exc is not None:
        rec.count("base_no_return")
        rec.count("no_return:" + common.exc_key(a.exc)[:70])
        return
    eff = kw.get("min_branch_length") or 1e-8
    tp_, tc_ = a.times[ts.edges_parent], a.times[ts.edges_child]
    if np.any(tp_ == tc_ + eff):
        rec.count("cases_where_mbl_binds")
    done = 0
    for c, rtol, label in cs:
        tsc, kc = scaled_call(ts, method, kw, extra, c)
        b = pairs.run(tsc, method, kc)
        if b.exc is not None and "fewer rescaling intervals" in str(b.exc) and label == "general" \
                and pairs.near_tie_evidence(a, b):
            # the rescaling step refuses breakpoints that tie after rounding: same observed mechanism
            rec.violation("near-tie-in-rescaling-step",
                          f"c={c!r}: base run returned, scaled run refused the rescaling ({b.exc}); observed {pairs.near_tie_evidence(a, b)[:2]}", c=c)
            continue
        if b.exc is not None:
            # an input the base accepts must be accepted at another scale too
            rec.violation(f"{method}:scaled-run-raised:{label}",
                          f"base run returned but c={c!r} raised {common.exc_key(b.exc)}", c=c)
            continue
        devs = pairs.compare(rec, a, b, ct=c, rtol=rtol, label=f"{method}:{label}")
        # variances are the least well conditioned output (quantile matching + Newton at sqrt(eps));
        # at general factors they get 1e-4, everything else 1e-6 (measured noise on 150-tree inputs:
        # 2.4e-8 on means, 3.7e-6 on variances)
        if label == "general":
            devs = {k_: (v_ / 100.0 if k_.endswith("_vr") else v_) for k_, v_ in devs.items()}
        worst = max(devs.values())
        rec.count(f"pairs:{method}:{label}")
        rec.count(f"binade:{int(np.floor(np.log2(c)))//10*10}")
        if not (worst <= rtol):
            which = max(devs, key=devs.get)
            if method == "variational_gamma" and label == "general":
                ev = pairs.near_tie_evidence(a, b)
                if ev:
                    rec.violation("near-tie-in-rescaling-step",
                                  f"c={c!r}: {which} deviates by {worst:.3g}; observed {ev[:2]}", c=c, dev=worst)
                    continue
            if not np.array_equal(a.mut_nodes, b.mut_nodes):
                which += "(mutation nodes differ)"
            rec.violation(f"{method}:{label}:not-scaled",
                          f"c={c!r}: {which} deviates by {worst:.3g} (> {rtol}) from exact scaling", c=c, dev=worst)
        done += 1
    if done == 2:
        rec.nontrivial = True


def reach(ctx, agg):
    need = {}
    for m in common.METHODS:
        need[f"pairs:{m}:pow2"] = 8
        need[f"pairs:{m}:general"] = 8
    need["cases_where_mbl_binds"] = 1
    out = [f"{k} = {agg.cnt.get(k, 0)} < {v}" for k, v in need.items() if agg.cnt.get(k, 0) < v]
    nb = len([k for k in agg.cnt if k.startswith("binade:")])
    if nb < 6:
        out.append(f"scale factors spanned only {nb} decades-of-binades (< 6)")
    return out
