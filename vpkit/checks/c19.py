"""C19 - special-function and gamma-fitting helpers are accurate.

Reference-model monitor: direct calls of the compiled helpers on log-uniform arguments and on
every series cut-off neighbourhood, compared with mpmath (30 digits) / scipy quantiles.
"""
import mpmath
import numpy as np
import scipy.special

from tsdate import approx, hypergeo
from vpkit import common

ID = "C19"
N = {"quick": 64, "thorough": 1600}
BUDGET = {"quick": 240.0, "thorough": 700.0}
RULE = ("case = a block of 120 arguments per helper (digamma, trigamma, betaln, moment fit, KL fit with "
        "shapes 1e-9..1e9, quantile fit incl. capped shapes), log-uniform over 16 decades plus all "
        "series cut-offs +-ulp; distinct = (helper, argument) points; non-trivial = every point")

CUTS = [1e-5, 8.5, 1e-4, 5.0, 1.0, 2.0]


def points(rng, n, lo=-8, hi=8):
    x = 10 ** rng.uniform(lo, hi, size=n)
    extra = []
    for c in CUTS:
        extra += [c, np.nextafter(c, 0), np.nextafter(c, np.inf), c * (1 + 1e-9), c * (1 - 1e-9)]
    return np.concatenate([x, extra])


def case(ctx, i, rec):
    mpmath.mp.dps = 30
    rng = ctx.rng(i)
    rec.sig = f"block{i}"
    rec.nontrivial = True
    xs = points(rng, 110)
    # --- digamma / trigamma
    for x in xs:
        x = float(x)
        for name, fn, ref in (("digamma", hypergeo._digamma, lambda v: mpmath.digamma(v)),
                              ("trigamma", hypergeo._trigamma, lambda v: mpmath.polygamma(1, v))):
            got = float(fn(x))
            r = float(ref(mpmath.mpf(x)))
            err = abs(got - r) / max(1.0, abs(r))
            rec.maxi(f"err:{name}", err)
            rec.count(f"points:{name}")
            rec.subcase(f"{name}:{x!r}")
            # trigamma's asymptotic series (x >= 5) is truncated at ~7e-12; that is the
            # accuracy the helper is built for
            if not (err <= (1e-12 if name == "digamma" else 5e-11)):
                rec.violation(f"{name}-inaccurate", f"{name}({x!r}) = {got!r}, reference {r!r} (err {err:.3g})", x=x)
    # --- betaln
    ps, qs = points(rng, 110), points(rng, 110)
    rng.shuffle(qs)
    for p, q in zip(ps, qs):
        p, q = float(p), float(q)
        got = float(hypergeo._betaln(p, q))
        r = float(mpmath.loggamma(p) + mpmath.loggamma(q) - mpmath.loggamma(mpmath.mpf(p) + mpmath.mpf(q)))
        # lgamma terms cancel: judge against the magnitude of the terms
        mag = float(abs(mpmath.loggamma(p)) + abs(mpmath.loggamma(q)) + abs(mpmath.loggamma(mpmath.mpf(p) + q)))
        err = abs(got - r) / max(1.0, abs(r), 1e-3 * mag)
        rec.maxi("err:betaln", err)
        rec.maxi("err:betaln_plain", abs(got - r) / max(1.0, abs(r)))
        rec.count("points:betaln")
        if not (err <= 1e-12):
            rec.violation("betaln-inaccurate", f"betaln({p!r},{q!r}) = {got!r}, reference {r!r} (err {err:.3g})")
    # --- moment fit
    for _ in range(120):
        mean = float(10 ** rng.uniform(-8, 8))
        # a quarter of the points ask for extremely peaked targets (shape up to 1e16)
        var = float(mean ** 2 * 10 ** (rng.uniform(-16, -8) if rng.random() < 0.25 else rng.uniform(-8, 8)))
        if var / mean ** 2 < 1e-8:
            rec.count("points:mom:shape_above_1e8")
        try:
            a, b = approx.approximate_gamma_mom(mean, var)
        except approx.KLMinimizationFailedError:
            rec.count("mom:reported_failure")
            continue
        gm, gv = (a + 1) / b, (a + 1) / b ** 2
        err = max(abs(gm - mean) / mean, abs(gv - var) / var)
        rec.maxi("err:mom", err)
        rec.count("points:mom")
        # natural parameters store shape - 1: for tiny shapes that costs eps/shape
        if not (err <= 1e-12 + 4e-16 * max(1.0, var / mean ** 2)):
            rec.violation("mom-fit-wrong", f"mean {mean!r} var {var!r}: gamma has mean {gm!r} var {gv!r}")
    for bad in ((0.0, 1.0), (1.0, 0.0), (-1.0, 1.0), (1.0, -2.0)):
        try:
            approx.approximate_gamma_mom(*bad)
            rec.violation("mom-fit-accepts-invalid", f"{bad} returned instead of reporting failure")
        except approx.KLMinimizationFailedError:
            rec.count("mom:invalid_rejected")
    # --- KL fit: targets built from a true gamma(shape, rate)
    for _ in range(120):
        shape = float(10 ** rng.uniform(-9, 9))
        rate = float(10 ** rng.uniform(-6, 6))
        x = shape / rate
        logx = float(mpmath.digamma(shape) - mpmath.log(rate))
        gap = float(mpmath.log(shape) - mpmath.digamma(shape))
        if not np.isfinite(logx) or not (np.log(x) > logx):
            rec.count("kl:target_not_representable")
            continue
        try:
            a, b = approx.approximate_gamma_kl(x, logx)
        except approx.KLMinimizationFailedError:
            rec.count("kl:reported_failure")
            continue
        al = a + 1
        gm = al / b
        gl = float(mpmath.digamma(al) - mpmath.log(b))
        e1 = abs(gm - x) / x
        e2 = abs(gl - logx) / max(1.0, gap)
        rec.maxi("err:kl_mean", e1)
        rec.maxi("err:kl_meanlog_over_max(1,gap)", e2)
        rec.count("points:kl")
        rec.count("points:kl_small_shape" if shape < 1e-5 else "points:kl_other")
        if not (e1 <= 1e-10 + 4e-16 / shape) or not (e2 <= 1e-7):
            rec.violation("kl-fit-wrong", f"target gamma({shape!r},{rate!r}): fit has mean {gm!r} (want {x!r}), "
                                          f"E[log] {gl!r} (want {logx!r}); errors {e1:.3g}, {e2:.3g}")
    # --- quantile fit
    for _ in range(120):
        q1 = float(rng.choice([0.25, 0.25, 0.1, 0.025, 0.4]))
        q2 = 1 - q1 if rng.random() < 0.7 else float(rng.uniform(q1 + 0.05, 0.99))
        cap = float(rng.choice([2.0, 10.0, 1000.0, 1000.0, 1e6]))
        shape = float(10 ** rng.uniform(-1, np.log10(cap) + 1.5))
        rate = float(10 ** rng.uniform(-6, 6))
        x1 = float(scipy.special.gammaincinv(shape, q1) / rate)
        x2 = float(scipy.special.gammaincinv(shape, q2) / rate)
        if not (x2 > x1 > 0) or not np.isfinite(x2):
            rec.count("iqr:degenerate_target")
            continue
        try:
            a, b = approx.approximate_gamma_iqr(q1, q2, x1, x2, cap)
        except approx.KLMinimizationFailedError as e:
            rec.count("iqr:reported_failure")
            rec.violation("iqr-fit-raised", f"sorted quantiles of gamma({shape!r},{rate!r}) at ({q1},{q2}), cap {cap}: {e}")
            continue
        al = a + 1
        Q1 = float(scipy.special.gammaincinv(al, q1) / b)
        Q2 = float(scipy.special.gammaincinv(al, q2) / b)
        rec.count("points:iqr")
        if shape > cap * (1 + 1e-6):
            rec.count("points:iqr_capped")
            if abs(al - cap) > 1e-9 * cap or abs(Q1 - x1) > 1e-9 * x1:
                rec.violation("iqr-cap-wrong", f"true shape {shape!r} > cap {cap}: returned shape {al!r}, Q(q1) {Q1!r} vs x1 {x1!r}")
        else:
            e = max(abs(Q2 / Q1 - x2 / x1) / (x2 / x1), abs(Q1 - x1) / x1)
            rec.maxi("err:iqr", e)
            if al > cap * (1 + 1e-9):
                rec.violation("iqr-shape-above-cap", f"returned shape {al!r} > cap {cap}")
            elif not (e <= 1e-6) and not (abs(al - cap) <= 1e-9 * cap and shape > cap * (1 - 1e-6)):
                rec.violation("iqr-fit-wrong", f"gamma({shape!r},{rate!r}) q=({q1},{q2}): fit shape {al!r} gives ratio {Q2 / Q1!r} want {x2 / x1!r}")


def reach(ctx, agg):
    need = {"points:digamma": 5000, "points:trigamma": 5000, "points:betaln": 5000, "points:mom": 5000,
            "points:kl": 3000, "points:kl_small_shape": 300, "points:iqr": 3000, "points:iqr_capped": 200}
    return [f"{k} = {agg.cnt.get(k, 0)} < {v}" for k, v in need.items() if agg.cnt.get(k, 0) < v]
