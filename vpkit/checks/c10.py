"""C10 - inside-outside is exact on a single tree.

Reference-model monitor: the discretised model is enumerated exhaustively (every assignment
of grid indices to non-sample nodes, vectorised as one dense tensor - no message passing),
giving exact marginals and the exact normalising constant.
"""
import itertools

import numpy as np
import scipy.special
import tskit

import tsdate
from vpkit import common, zoo

ID = "C10"
N = {"quick": 170, "thorough": 6500}
BUDGET = {"quick": 240.0, "thorough": 2400.0}
RULE = ("case = (single-tree shape, mutation count per edge incl. mutations above the root, user "
        "timegrid of 2-7 points, prior rows (built by tsdate / arbitrary positive / with holes), eps, probability space, outside_standardize); "
        "thorough additionally enumerates ALL shapes with <=4 leaves x ALL mutation patterns over "
        "{0,1,3}; distinct by (shape hash, mutation pattern, grid, options); non-trivial = >=1 "
        "non-sample node and the enumeration was compared with posterior and likelihood")


def enumerate_model(ts, prior, mu, eps):
    """Exact marginals and log Z by brute force. Returns (dict node->marginal, logZ)."""
    tp = np.asarray(prior.timepoints, dtype=float)
    G = len(tp)
    nons = [int(u) for u in range(ts.num_nodes) if not (ts.nodes_flags[u] & tskit.NODE_IS_SAMPLE)]
    K = len(nons)
    axis = {u: k for k, u in enumerate(nons)}
    muts = np.zeros(ts.num_edges)
    for m in ts.mutations():
        if m.edge != tskit.NULL:
            muts[m.edge] += 1
    W = np.zeros((G,) * K)
    with np.errstate(divide="ignore"):
        for u in nons:
            shape = [1] * K
            shape[axis[u]] = G
            W = W + np.log(np.asarray(prior[u], dtype=float)).reshape(shape)
        for e in ts.edges():
            span = e.right - e.left
            m = muts[e.id]
            if e.child in axis:
                ip = np.arange(G)[:, None]
                ic = np.arange(G)[None, :]
                dt = tp[:, None] - tp[None, :] + eps
                rate = dt * mu * span
                ll = np.where(ip >= ic, m * np.log(np.where(rate > 0, rate, 1.0)) - rate
                              - scipy.special.gammaln(m + 1), -np.inf)
                ll = np.where((ip >= ic) & (rate <= 0), -np.inf if m > 0 else 0.0, ll)
                shape = [1] * K
                shape[axis[e.parent]] = G
                shape[axis[e.child]] = G
                if axis[e.parent] < axis[e.child]:
                    W = W + ll.reshape(shape)
                else:
                    W = W + ll.T.reshape(shape)
            else:
                dt = tp - tp[0] + eps
                rate = dt * mu * span
                ll = m * np.log(rate) - rate - scipy.special.gammaln(m + 1)
                shape = [1] * K
                shape[axis[e.parent]] = G
                W = W + ll.reshape(shape)
    logZ = float(scipy.special.logsumexp(W))
    marg = {}
    for u in nons:
        other = tuple(k for k in range(K) if k != axis[u])
        lm = scipy.special.logsumexp(W, axis=other) if other else W
        marg[u] = np.exp(lm - logZ)
    return marg, logZ, G ** K


def add_root_muts(ts, k):
    if k == 0:
        return ts
    t = ts.dump_tables()
    root = ts.first().root
    used = set(ts.sites_position.tolist())
    L = ts.sequence_length
    added = 0
    j = 1
    while added < k:
        x = L * j / (k + 7.5)
        j += 1
        if x in used or x >= L:
            continue
        used.add(x)
        s = t.sites.add_row(position=x, ancestral_state="0")
        t.mutations.add_row(site=s, node=root, derived_state="1")
        added += 1
    t.sort()
    t.build_index()
    t.compute_mutation_parents()
    return t.tree_sequence()


def exhaustive_list():
    out = []
    for n in (2, 3, 4):
        for si, shape in enumerate(zoo.all_tree_shapes(n)):
            ts, edges = zoo.tree_from_shape(shape, muts_per_edge=[0] * 10)
            ne = ts.num_edges
            for pat in itertools.product((0, 1, 3), repeat=ne):
                out.append((n, si, pat))
    return out


_EXH = None


def case(ctx, i, rec):
    global _EXH
    rng = ctx.rng(i)
    nq = 0 if ctx.tier == "quick" else None
    if ctx.tier == "thorough":
        if _EXH is None:
            _EXH = exhaustive_list()
        nq = len(_EXH)
    if ctx.tier == "thorough" and i < nq:
        n, si, pat = _EXH[i]
        shape = zoo.all_tree_shapes(n)[si]
        ts, edges = zoo.tree_from_shape(shape, L=float(rng.choice([1.0, 1000.0])), muts_per_edge=list(pat))
        desc = dict(gen="exhaustive", leaves=n, shape=repr(shape), pattern=list(pat))
        rec.count("exhaustive_subspace_cases")
        rootm = 0
    else:
        mode = i % 4
        if mode in (0, 1):
            n = int(rng.integers(2, 6))
            shapes = zoo.all_tree_shapes(n)
            shape = shapes[int(rng.integers(len(shapes)))]
            mp = None
            ts0, edges = zoo.tree_from_shape(shape, muts_per_edge=[0] * 12)
            mp = [int(rng.choice([0, 1, 2, 5, 20])) for _ in range(ts0.num_edges)]
            ts, edges = zoo.tree_from_shape(shape, L=float(rng.choice([1.0, 100.0, 1e4])), muts_per_edge=mp)
            desc = dict(gen="shape", leaves=n, shape=repr(shape), pattern=mp)
        else:
            ts, r = zoo.handmade_tree(rng, n_leaves=int(rng.integers(3, 9)),
                                      shape=str(rng.choice(["binary", "polytomy", "caterpillar", "polytomy"])))
            desc = dict(r)
        rootm = int(rng.choice([0, 0, 1, 3]))
        ts = add_root_muts(ts, rootm)
        desc["root_mutations"] = rootm
    nons = ts.num_nodes - ts.num_samples
    if nons > 7:
        rec.count("skipped_too_many_nodes")
        return
    G = int(rng.integers(2, 8)) if nons <= 5 else int(rng.integers(2, 6))
    scale = float(10 ** rng.uniform(0, 3))
    if rng.random() < 0.5:
        tp = np.concatenate([[0.0], np.sort(rng.uniform(0.05, 3.0, size=G - 1))]) * scale
    else:
        tp = np.concatenate([[0.0], np.cumsum(10 ** rng.uniform(-3, 0.5, size=G - 1))]) * scale
    if len(np.unique(tp)) < G:
        tp = np.arange(G) * scale
    distr = str(rng.choice(["lognorm", "gamma"]))
    Ne = scale / 2
    span = ts.sequence_length
    mu = float(10 ** rng.uniform(-1.5, 1.0)) / (scale * span) * max(1.0, np.sqrt(ts.num_mutations / max(ts.num_edges, 1)))
    eps = float(rng.choice([1e-8, 1e-6, 1e-3 * scale, 0.05 * scale]))
    space = ["linear", "logarithmic"][i % 2]
    std = bool(rng.random() < 0.7)
    try:
        prior = tsdate.build_prior_grid(ts, population_size=Ne, timepoints=tp, prior_distribution=distr)
    except Exception as e:
        rec.count("prior_build_failed:" + type(e).__name__)
        return
    # "any discretised prior": rows as tsdate builds them (no mass at the first timepoint), arbitrary
    # strictly positive rows, or rows with holes - set through the public item assignment
    pmode = ["built", "positive", "holes", "built"][int(rng.integers(4))]
    if pmode != "built":
        for u in range(ts.num_nodes):
            if ts.nodes_flags[u] & tskit.NODE_IS_SAMPLE:
                continue
            row = rng.uniform(0.05, 1.0, size=len(tp))
            if pmode == "holes" and len(tp) > 2:
                row[rng.random(len(tp)) < 0.3] = 0.0
                if not np.any(row > 0):
                    row[int(rng.integers(len(tp)))] = 0.5
            if rng.random() < 0.5:
                row = row / row.sum()
            prior[u] = row
    prior_lin = prior.clone_with_new_data(grid_data=np.array(prior.grid_data, copy=True), fixed_data=np.array(prior.fixed_data, copy=True))
    marg, logZ, nassign = enumerate_model(ts, prior_lin, mu, eps)
    rec.sig = zoo.ts_sig(ts, G, distr, pmode, space, std, repr(eps), repr(tp[:3]))
    if i < 3 or (ctx.tier == "thorough" and i in (nq, nq + 1)):
        rec.sample = dict(desc, grid=tp.tolist(), prior=distr, prior_rows=pmode, eps=eps, space=space, outside_standardize=std,
                          mutation_rate=mu, assignments_enumerated=nassign)
    if not np.isfinite(logZ):
        rec.count("skipped_model_has_zero_mass")
        return
    if space == "linear" and logZ < -600:
        rec.count("skipped_linear_underflow_domain")
        return
    res, exc = common.call(tsdate.inside_outside, ts, mutation_rate=mu, priors=prior, eps=eps,
                           probability_space=space, outside_standardize=std, return_fit=True,
                           return_likelihood=True)
    if exc is not None:
        rec.violation("inside_outside-raised:" + common.exc_key(exc)[:60],
                      f"valid single-tree input raised {common.exc_key(exc)}")
        return
    out, fit, lik = res
    post = fit.node_posteriors()
    names = post.dtype.names
    grid = np.array([post[nm] for nm in names]).T
    rec.nontrivial = True
    rec.count(f"cases:{space}")
    rec.count(f"cases:prior_{pmode}")
    rec.count("assignments_enumerated", nassign)
    if rootm:
        rec.count("cases_with_root_mutations")
    nch = np.bincount(ts.edges_parent, minlength=ts.num_nodes)
    if np.any(nch > 2):
        rec.count("cases_with_polytomy")
    worst = 0.0
    for u, m in marg.items():
        d = float(np.max(np.abs(grid[u] - m)))
        worst = max(worst, d)
        rec.count("nodes_compared")
    rec.maxi(f"posterior_abs_err:{space}", worst)
    if not (worst <= 1e-10):
        u = max(marg, key=lambda u: float(np.max(np.abs(grid[u] - marg[u]))))
        rec.violation(f"posterior-not-exact:{space}",
                      f"node {u}: inside_outside posterior {np.round(grid[u], 6).tolist()} exact "
                      f"{np.round(marg[u], 6).tolist()} (max abs err {worst:.3g})", err=worst)
    ref = logZ if space == "logarithmic" else np.exp(logZ)
    if space == "logarithmic":
        e = abs(float(lik) - ref) / max(1.0, abs(ref))
    else:
        e = abs(float(lik) - ref) / abs(ref) if ref > 0 else np.inf
    rec.maxi(f"likelihood_rel_err:{space}", e)
    if not (e <= 1e-10):
        rec.violation(f"likelihood-not-normalising-constant:{space}",
                      f"returned likelihood {float(lik)!r}, exact {'log ' if space == 'logarithmic' else ''}Z = {ref!r}", err=e)


def post(ctx, agg):
    if ctx.tier == "thorough" and _EXH is None:
        n = len(exhaustive_list())
    if ctx.tier == "thorough":
        n = len(exhaustive_list())
        agg.extra["exhaustive_subspace_size"] = n
        agg.extra["exhaustive_subspace_completed"] = bool(agg.cnt.get("exhaustive_subspace_cases", 0) >= n)
        agg.extra["exhaustive_note"] = ("exhaustive only for the sub-space: all rooted shapes with 2-4 leaves x all "
                                        "mutation patterns over {0,1,3} per edge; grids/options sampled")


def reach(ctx, agg):
    need = {"cases:linear": 40, "cases:logarithmic": 40, "cases:prior_positive": 15, "cases:prior_holes": 10, "cases_with_polytomy": 20,
            "cases_with_root_mutations": 10, "nodes_compared": 200}
    return [f"{k} = {agg.cnt.get(k, 0)} < {v}" for k, v in need.items() if agg.cnt.get(k, 0) < v]
