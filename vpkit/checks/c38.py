"""C38 - ignore_oldest_root ignores exactly the oldest root, whatever the node numbering.

Two-run relation monitor: inside_outside(ignore_oldest_root=True) on (ts, renumbered ts);
plus a reference run in which the oldest root is renumbered to be the last node id.
"""
import numpy as np
import tskit

import tsdate
from vpkit import common, pairs, zoo

ID = "C38"
N = {"quick": 90, "thorough": 3000}
BUDGET = {"quick": 240.0, "thorough": 700.0}
RULE = ("case = (multi-tree contemporaneous input, optionally with a grand MRCA added on top or "
        "several roots of different ages, random renumbering of non-sample nodes); distinct by "
        "(topology hash, options, permutation); non-trivial = pair compared and the oldest root is "
        "not the last node id in at least one member")


def add_grand_mrca(ts, rng):
    """join all tree roots under one new oldest node (older tsinfer style)"""
    t = ts.dump_tables()
    top = float(np.max(ts.nodes_time)) * 1.5 + 1.0
    g = t.nodes.add_row(flags=0, time=top)
    for tree in ts.trees():
        for root in tree.roots:
            if tree.num_children(root) > 0:
                t.edges.add_row(tree.interval.left, tree.interval.right, g, root)
    t.sort()
    t.edges.squash()
    t.sort()
    t.build_index()
    t.compute_mutation_parents()
    out = t.tree_sequence()
    return out.simplify(keep_unary=False, filter_sites=False)


def oldest_root(ts):
    is_child = np.zeros(ts.num_nodes, dtype=bool)
    is_child[ts.edges_child] = True
    is_parent = np.zeros(ts.num_nodes, dtype=bool)
    is_parent[ts.edges_parent] = True
    roots = np.flatnonzero(is_parent & ~is_child)
    tm = ts.nodes_time[roots]
    if len(roots) == 0 or np.sum(tm == tm.max()) != 1:
        return None
    return int(roots[np.argmax(tm)])


def case(ctx, i, rec):
    rng = ctx.rng(i)
    ts, r = zoo.sim(rng, n=int(rng.integers(3, 12)), L=1e4)
    if i % 3 == 1:
        try:
            ts, r = zoo.inferred(rng)
        except Exception:
            pass
    if not common.discrete_ok(ts):
        ts, r = zoo.sim(rng)
    if i % 2 == 0:
        try:
            ts2 = add_grand_mrca(ts, rng)
            if ts2.num_mutations > 0:
                ts = ts2
                r["grand_mrca"] = True
        except Exception:
            pass
    root = oldest_root(ts)
    if root is None:
        rec.count("skipped_no_unique_oldest_root")
        return
    Ne = r.get("Ne", 100.0)
    kw = dict(mutation_rate=common.default_mu(ts, r), population_size=Ne, ignore_oldest_root=True,
              probability_space=str(rng.choice(["linear", "logarithmic"])))
    a = pairs.run(ts, "inside_outside", kw)
    rec.sig = zoo.ts_sig(ts, kw["probability_space"])
    if i < 3:
        rec.sample = dict(recipe=r, kw={k: repr(v) for k, v in kw.items()}, oldest_root=root, num_nodes=ts.num_nodes)
    if a.exc is not None:
        rec.count("base_no_return")
        rec.count("no_return:" + common.exc_key(a.exc)[:60])
        return
    nons = np.flatnonzero(~common.is_sample(ts))
    last = int(nons[-1]) if nons[-1] == ts.num_nodes - 1 else None

    def perm_with_last(keep):
        """random permutation of the non-sample ids that sends node `keep` to the last id"""
        others = [k for k, u in enumerate(nons) if u != keep]
        slots = list(rng.permutation(len(nons) - 1))
        p = np.empty(len(nons), dtype=int)
        for k, sl in zip(others, slots):
            p[k] = sl
        p[list(nons).index(keep)] = len(nons) - 1
        return p

    if last is None:
        rec.count("skipped_last_id_is_a_sample")
        return
    # reference semantics: the oldest root carries the last id (two different numberings)
    ts_c, id_c = zoo.renumber(ts, rng, perm=perm_with_last(root))
    ts_d, id_d = zoo.renumber(ts, rng, perm=perm_with_last(root))
    c = pairs.run(ts_c, "inside_outside", kw)
    d = pairs.run(ts_d, "inside_outside", kw)
    # a free renumbering, and one that keeps the base's last-id node last
    ts_b, id_b = zoo.renumber(ts, rng)
    b = pairs.run(ts_b, "inside_outside", kw)
    ts_e, id_e = zoo.renumber(ts, rng, perm=perm_with_last(last))
    e = pairs.run(ts_e, "inside_outside", kw)
    # ... and a second numbering that shares the free renumbering's last-id node (usually not a root)
    last_b = int(np.flatnonzero(id_b == ts.num_nodes - 1)[0])
    ts_g, id_g = zoo.renumber(ts, rng, perm=perm_with_last(last_b))
    g = pairs.run(ts_g, "inside_outside", kw)
    for name, o in (("c", c), ("d", d), ("b", b), ("e", e), ("g", g)):
        if o.exc is not None:
            rec.violation("renumbered-run-raised", f"renumbered input ({name}) raised {common.exc_key(o.exc)}")
            return
    rec.count("pairs")
    rec.nontrivial = True
    if ts.num_trees >= 2:
        rec.count("multi_tree_pairs")

    def dev(x, idx, y, idy):
        inv = np.empty(ts.num_nodes, dtype=int)
        return max(common.rel_err(x.times[idx], y.times[idy]), common.rel_err(x.node_mn[idx], y.node_mn[idy]))

    if kw["probability_space"] == "linear" and pairs.linear_underflow(a, b, c, d, e, g):
        # cells in the subnormal range: the linear-space result is no longer determined to 1e-9 by the
        # model (the logarithmic run of the same inputs agrees to 1e-16); counted, and the same six
        # inputs are judged in logarithmic space instead
        rec.count("pairs_in_linear_underflow_domain(judged_in_log_space)")
        kw = dict(kw, probability_space="logarithmic")
        a, c, d, b, e, g = [pairs.run(x, "inside_outside", kw) for x in (ts, ts_c, ts_d, ts_b, ts_e, ts_g)]
        for name, o in (("a", a), ("c", c), ("d", d), ("b", b), ("e", e), ("g", g)):
            if o.exc is not None:
                rec.violation("renumbered-run-raised", f"input ({name}) raised {common.exc_key(o.exc)} in logarithmic space")
                return
    d_cd = dev(c, id_c, d, id_d)
    rec.maxi("dev_between_two_numberings_with_oldest_root_last", d_cd)
    rec.count("pairs_oldest_root_last_in_both")
    if d_cd > 1e-9:
        rec.violation("depends-on-numbering-even-with-oldest-root-last",
                      f"two numberings that both give the oldest root the last id differ by {d_cd:.3g}", dev=d_cd)
    d_ae = dev(a, np.arange(ts.num_nodes), e, id_e)
    rec.maxi("dev_between_numberings_sharing_the_last_id_node", d_ae)
    if d_ae > 1e-9:
        rec.violation("depends-on-numbering-beyond-which-node-is-last",
                      f"two numberings with the same node in the last id differ by {d_ae:.3g}", dev=d_ae)
    d_bg = dev(b, id_b, g, id_g)
    rec.maxi("dev_between_numberings_sharing_a_non_root_last_id_node", d_bg)
    if last_b != root:
        rec.count("pairs_sharing_a_last_id_node_that_is_not_the_oldest_root")
    if d_bg > 1e-9:
        rec.violation("depends-on-numbering-beyond-which-node-is-last",
                      f"two numberings that give the last id to the same node ({last_b}, oldest root is {root}) differ by {d_bg:.3g}", dev=d_bg)
    for name, o, idx in (("input", a, np.arange(ts.num_nodes)), ("renumbered", b, id_b)):
        root_is_last = idx[root] == ts.num_nodes - 1
        dv = dev(o, idx, c, id_c)
        if root_is_last:
            rec.count("members_with_oldest_root_last")
            if dv > 1e-9:
                rec.violation("differs-from-reference-although-oldest-root-is-last",
                              f"{name}: differs from the oldest-root-last reference by {dv:.3g}", dev=dv)
        else:
            rec.count("members_with_oldest_root_not_last")
            rec.maxi("dev_when_oldest_root_not_last", dv)
            if dv > 1e-9:
                rec.violation("last-id-node-ignored-instead-of-oldest-root",
                              f"{name}: oldest root has id {idx[root]} (last id {ts.num_nodes - 1}): dates differ by {dv:.3g} "
                              "from the run in which the oldest root is numbered last", dev=dv)


def reach(ctx, agg):
    need = {"pairs": 40, "members_with_oldest_root_not_last": 30, "members_with_oldest_root_last": 10, "multi_tree_pairs": 20}
    return [f"{k} = {agg.cnt.get(k, 0)} < {v}" for k, v in need.items() if agg.cnt.get(k, 0) < v]
