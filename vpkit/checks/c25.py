"""C25 - time rescaling is an order-preserving recalibration.

Invariant at internal hooks: every call made by ExpectationPropagation.rescale() to
mutational_timescale / piecewise_scale_* is recorded with its arguments and results inside
real variational_gamma runs; the map, the rescaled posteriors and the per-interval counts and
areas are judged against direct computations.
"""
import numpy as np

import tsdate
from tsdate import rescaling
from vpkit import common, rescale_hooks, zoo

rescale_hooks.install()

ID = "C25"
N = {"quick": 200, "thorough": 6000}
BUDGET = {"quick": 240.0, "thorough": 700.0}
RULE = ("case = (zoo input, rescaling_intervals 1/2/10/1000, rescaling_iterations 1/5/20, "
        "match_segregating_sites, max_iterations 1..25 (1 leaves reversed branches), max_shape); "
        "distinct by (topology hash, options); non-trivial = a rescale() call was observed end to end")


def direct_area(nodes_time, lik, ep, ec):
    """counts (rates) and spans per epoch between consecutive distinct node times, O(E*K)"""
    breaks = np.unique(np.concatenate([[0.0], nodes_time]))
    K = len(breaks) - 1
    counts = np.zeros(K)
    offset = np.zeros(K)
    tp, tc = nodes_time[ep], nodes_time[ec]
    for e in range(len(ep)):
        ln = tp[e] - tc[e]
        if not ln > 0:
            continue
        lo = np.searchsorted(breaks, tc[e], "left")
        hi = np.searchsorted(breaks, tp[e], "left")
        counts[lo:hi] += lik[e, 0] / ln
        offset[lo:hi] += lik[e, 1]
    return counts, offset, np.diff(breaks)


def pw_map(x, ob, rb):
    x = np.asarray(x, dtype=float)
    sc = np.append(np.diff(rb) / np.diff(ob), 0.0)
    idx = np.searchsorted(ob, x, "right") - 1
    return rb[idx] + sc[idx] * (x - ob[idx])


def case(ctx, i, rec):
    rng = ctx.rng(i)
    ts, r = zoo.any_input(rng, allow_inferred=(i % 6 == 0))
    # the same problem posed in other time units: ages of order 1e-15 .. 1e9 (distinct ages stay distinct)
    tscale = float(rng.choice([1.0, 1.0, 1.0, 1e-15, 1e-12, 1e9]))
    if tscale != 1.0:
        if not common.contemporaneous(ts):
            ts = zoo.rescale_time(ts, tscale)
        rec.count("runs_in_other_time_units")
    kw = dict(mutation_rate=common.default_mu(ts, r) / tscale, return_fit=True,
              rescaling_intervals=int(rng.choice([1, 2, 10, 10, 1000])),
              rescaling_iterations=int(rng.choice([1, 5, 20])),
              match_segregating_sites=bool(rng.random() < 0.4),
              max_iterations=int(rng.choice([1, 1, 5, 25])),
              max_shape=float(rng.choice([10.0, 1000.0, 1000.0])))
    if ts.num_individuals and common.can_unphase(ts) and rng.random() < 0.3:
        kw["singletons_phased"] = False
    rescale_hooks.start()
    res, exc = common.call(tsdate.variational_gamma, ts, **kw)
    ev = rescale_hooks.stop()
    rec.sig = zoo.ts_sig(ts, tuple(sorted((k, repr(v)) for k, v in kw.items() if k != "mutation_rate")))
    if i < 3:
        rec.sample = dict(recipe=r, kw={k: repr(v) for k, v in kw.items()})
    if exc is not None:
        rec.count("no_return")
        rec.count("no_return:" + common.exc_key(exc)[:60])
    enter = [e for e in ev if e[0] == "rescale:enter"]
    exit_ = [e for e in ev if e[0] == "rescale:exit"]
    mts = [e for e in ev if e[0] == "mutational_timescale"]
    # --- per-interval counts and areas, on every recorded mutational_timescale call
    for (_, before, after, out) in mts:
        nodes_time, lik, fixed, ep, ec, maxint = before
        try:
            c, o, d, idx = rescaling.mutational_area(nodes_time, lik, ep, ec)
        except Exception as e:
            rec.violation("mutational_area-raised", f"{e!r}")
            continue
        wc, wo, wd = direct_area(nodes_time, lik, ep, ec)
        rec.count("mutational_area_calls")
        if np.any(nodes_time[ep] - nodes_time[ec] < 0):
            rec.count("area_calls_with_reversed_branches")
        if len(c) != len(wc):
            rec.violation("area-epoch-count", f"{len(c)} epochs, direct computation has {len(wc)}")
            continue
        sc = max(float(np.max(np.abs(wc))) if wc.size else 0.0, 1e-300)
        so = max(float(np.max(np.abs(wo))) if wo.size else 0.0, 1e-300)
        ec_ = float(np.max(np.abs(c - wc))) / sc if wc.size else 0.0
        eo_ = float(np.max(np.abs(o - wo))) / so if wo.size else 0.0
        ed_ = common.rel_err(d, wd)
        rec.maxi("area_counts_err", ec_)
        rec.maxi("area_offset_err", eo_)
        if not (ec_ <= 1e-9 and eo_ <= 1e-9 and ed_ <= 1e-12):
            rec.violation("interval-counts-or-areas-wrong",
                          f"mutational_area differs from the direct edge/interval overlap: counts {ec_:.3g}, areas {eo_:.3g}, durations {ed_:.3g} "
                          f"({int(np.sum(nodes_time[ep] - nodes_time[ec] < 0))} reversed branches)")
        ob, rb = out
        if ob[0] != 0 or rb[0] != 0:
            rec.violation("map-does-not-fix-zero", f"breaks start at {ob[0]!r} -> {rb[0]!r}")
    if not (enter and exit_):
        return
    rec.nontrivial = True
    rec.count("rescale_calls")
    rec.count(f"rescale_calls:intervals={kw['rescaling_intervals']}")
    pp = [e for e in ev if e[0] == "piecewise_scale_posterior"]
    if not pp:
        return
    post_before, pfixed, ob, rb, qw, ms = pp[0][1]
    post_after = pp[0][3]
    if ob[0] != 0 or rb[0] != 0 or not np.all(np.diff(ob) > 0) or not np.all(np.diff(rb) > 0):
        rec.violation("final-map-not-increasing-from-zero", f"original breaks {ob[:4]}..., rescaled {rb[:4]}...")
        return
    free = ~pfixed
    mean_b = (post_before[free, 0] + 1) / post_before[free, 1]
    mean_a = (post_after[free, 0] + 1) / post_after[free, 1]
    want = pw_map(mean_b, ob, rb)
    e = common.rel_err(mean_a, want)
    rec.maxi("mean_map_relerr", e)
    rec.count("posteriors_rescaled", int(free.sum()))
    if not (e <= 1e-9):
        j = int(np.argmax(np.abs(mean_a - want) / np.maximum(np.abs(want), 1e-300)))
        rec.violation("rescaled-mean-not-mapped-mean", f"free node #{j}: mean {mean_b[j]!r} -> {mean_a[j]!r}, map gives {want[j]!r}")
    o = np.argsort(mean_b, kind="stable")
    da = np.diff(mean_a[o])
    db = np.diff(mean_b[o])
    if np.any((db > 0) & (da < -1e-12 * np.abs(mean_a[o][1:]))):
        rec.violation("order-of-means-reversed", "two nodes' posterior means swapped order under rescaling")
    shape_a = post_after[free, 0] + 1
    rec.maxi("shape_over_max_shape", float(np.max(shape_a) / ms) if shape_a.size else 0.0)
    if np.any(shape_a > ms * (1 + 1e-9)) or np.any(~(shape_a > 0)):
        rec.violation("rescaled-shape-above-cap-or-improper", f"max shape after rescaling {float(np.max(shape_a))!r}, max_shape {ms}")
    # fixed nodes untouched, at the fit level
    if exc is None:
        fit = res[1]
        fit_fixed = common.is_sample(ts)
        npst = fit.node_posteriors()
        if np.any(npst["mean"][fit_fixed] != ts.nodes_time[fit_fixed]) or np.any(npst["variance"][fit_fixed] != 0):
            rec.violation("sample-time-touched", "after rescaling a sample node's posterior mean differs from its time")
        rec.count("sample_rows_checked", int(fit_fixed.sum()))
    # the node point estimates of each iteration are mapped monotonically, samples untouched
    for (_, before, after, out) in [e for e in ev if e[0] == "piecewise_scale_point_estimate"][:-1]:
        x, xf, ob2, rb2 = before
        y = out
        if np.any(y[xf] != x[xf]):
            rec.violation("point-estimate-of-fixed-node-moved", "a fixed node's time changed in piecewise_scale_point_estimate")
        oo = np.argsort(x[~xf], kind="stable")
        if np.any(np.diff(y[~xf][oo]) < -1e-12 * np.abs(y[~xf][oo][1:])):
            rec.violation("point-estimates-reordered", "rescaled point estimates are not monotone in the originals")
        rec.count("point_estimate_calls")


def reach(ctx, agg):
    need = {"rescale_calls": 100, "mutational_area_calls": 300, "runs_in_other_time_units": 30, "area_calls_with_reversed_branches": 5,
            "rescale_calls:intervals=1": 10, "rescale_calls:intervals=1000": 5, "posteriors_rescaled": 1000}
    return [f"{k} = {agg.cnt.get(k, 0)} < {v}" for k, v in need.items() if agg.cnt.get(k, 0) < v]
