"""C11 - discrete-time dating is invariant to node numbering and input time order.

Two-run relation monitor: (ts, renumbered ts) and (ts, re-timed ts) for inside_outside and
maximization; for maximization a mismatch is excused only if, at the topmost mismatching node,
the two chosen timepoints are numerically tied under the C13 objective.
"""
import numpy as np

import tsdate
from vpkit import common, pairs, zoo
from vpkit.checks import c13

ID = "C11"
N = {"quick": 90, "thorough": 4000}
BUDGET = {"quick": 240.0, "thorough": 700.0}
RULE = ("case = (contemporaneous zoo input, method, grid/eps/space, one random renumbering of "
        "non-sample nodes and one random order-preserving re-timing); distinct by (topology hash, "
        "method, options, permutation); non-trivial = both related runs returned and were compared")


def tie_excused(rec, ts, a, b_times_mapped, mu, eps, space):
    """topmost mismatching node: are the two indices tied under the objective (base run)?"""
    fit = a.fit
    objs = c13.judge(engine_dummy, ts, fit, mu, eps, space)
    if objs is None:
        return False
    tp = np.asarray(fit.lik.timepoints, dtype=float)
    mism = np.flatnonzero(~np.isclose(a.node_mn, b_times_mapped, rtol=1e-9, atol=0))
    parents = {}
    for p, c in zip(ts.edges_parent, ts.edges_child):
        parents.setdefault(int(c), set()).add(int(p))
    ms = set(int(x) for x in mism)
    top = [u for u in ms if not (parents.get(u, set()) & ms)]
    for u in top:
        if u not in objs:
            return False
        ia, obj = objs[u]
        w = np.flatnonzero(tp == b_times_mapped[u])
        if len(w) != 1 or w[0] >= len(obj):
            return False
        gap = abs(obj[ia] - obj[int(w[0])])
        if not (gap <= 1e-9 * max(1.0, abs(obj[ia]))):
            return False
    return True


class _Dummy:
    """recorder that swallows events (the C13 judgement itself is C13's business)"""
    cnt = {}

    def violation(self, *a, **k):
        pass

    def count(self, *a, **k):
        pass

    def maxi(self, *a, **k):
        pass


engine_dummy = _Dummy()


def case(ctx, i, rec):
    rng = ctx.rng(i)
    method = ["inside_outside", "maximization"][i % 2]
    if i % 3 == 0:
        ts, r = zoo.sim(rng, n=int(rng.integers(4, 12)), L=1e4)
    else:
        ts, r = zoo.any_input(rng, contemporaneous=True, kinds=["sim", "inferred", "missing", "recurrent", "handmade"])
    if not common.discrete_ok(ts):
        ts, r = zoo.sim(rng)
    Ne = r.get("Ne", 100.0)
    mu = common.default_mu(ts, r)
    space = str(rng.choice(["linear", "logarithmic"]))
    eps = float(rng.choice([1e-8, 1e-6, 1e-3]))
    kw = dict(mutation_rate=mu, population_size=Ne, probability_space=space, eps=eps)
    if rng.random() < 0.3:
        kw["outside_standardize"] = False if method == "inside_outside" else None
        if kw["outside_standardize"] is None:
            kw.pop("outside_standardize")
    a = pairs.run(ts, method, kw)
    rec.sig = zoo.ts_sig(ts, method, space, repr(eps))
    if i < 3:
        rec.sample = dict(recipe=r, method=method, kw={k: repr(v) for k, v in kw.items()})
    if a.exc is not None:
        rec.count("base_no_return")
        rec.count("no_return:" + common.exc_key(a.exc)[:60])
        return
    done = 0
    for rel in ("renumber", "retime"):
        if rel == "renumber":
            ts2, newid = zoo.renumber(ts, rng)
            if np.array_equal(newid, np.arange(ts.num_nodes)):
                rec.count("identity_permutation")
        else:
            ts2, mode = zoo.retime(ts, rng)
            newid = np.arange(ts.num_nodes)
        b = pairs.run(ts2, method, kw)
        if b.exc is not None:
            rec.violation(f"{method}:{rel}:related-run-raised",
                          f"base returned but the {rel}ed input raised {common.exc_key(b.exc)}")
            continue
        rec.count(f"pairs:{method}:{rel}")
        if ts.num_trees >= 3:
            rec.count(f"pairs_3plus_trees:{rel}")
        dev_t = common.rel_err(a.times, b.times[newid])
        dev_m = common.rel_err(a.node_mn, b.node_mn[newid])
        rec.maxi(f"dev:{method}:{rel}", max(dev_t, dev_m))
        done += 1
        if max(dev_t, dev_m) > 1e-9:
            if space == "linear" and pairs.linear_underflow(a, b):
                rec.count("pairs_in_linear_underflow_domain")
                continue
            if method == "maximization" and tie_excused(rec, ts, a, b.node_mn[newid], mu, eps, space):
                rec.count("tie_skipped")
                continue
            rec.violation(f"{method}:depends-on-{rel}",
                          f"{rel}: node times differ by {dev_t:.3g}, posterior means by {dev_m:.3g}", dev=max(dev_t, dev_m))
    if done == 2:
        rec.nontrivial = True


def reach(ctx, agg):
    need = {"pairs:inside_outside:renumber": 25, "pairs:inside_outside:retime": 25,
            "pairs:maximization:renumber": 25, "pairs:maximization:retime": 25,
            "pairs_3plus_trees:renumber": 10, "pairs_3plus_trees:retime": 10}
    return [f"{k} = {agg.cnt.get(k, 0)} < {v}" for k, v in need.items() if agg.cnt.get(k, 0) < v]
