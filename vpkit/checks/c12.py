"""C12 - linear and logarithmic probability spaces agree.

Two-run relation monitor: the same call in both spaces. Domain guard taken from the
statement: pairs whose linear-space run under- or overflows (a zero row, inf or NaN in
inside / outside / posterior) are counted and not judged.
"""
import numpy as np

import tsdate
from vpkit import common, pairs, zoo

ID = "C12"
N = {"quick": 110, "thorough": 3500}
BUDGET = {"quick": 240.0, "thorough": 700.0}
RULE = ("case = (contemporaneous zoo input small enough for linear space, method, prior grid, eps, "
        "standardisation); distinct by (topology hash, method, options); non-trivial = in-domain pair "
        "compared (times and full posterior rows)")


def lin_in_domain(fit, method):
    for name in ("inside", "outside", "posterior_grid"):
        obj = getattr(fit, name, None)
        if obj is None:
            continue
        g = np.asarray(obj.grid_data, dtype=float)
        if obj.probability_space == "logarithmic":
            continue
        if not np.all(np.isfinite(g)):
            return False, f"{name} has inf/NaN"
        if np.any(np.all(g == 0, axis=1)):
            return False, f"{name} has an all-zero row"
    return True, ""


def case(ctx, i, rec):
    rng = ctx.rng(i)
    method = ["inside_outside", "maximization"][i % 2]
    kinds = ["sim", "sim", "handmade", "missing", "recurrent", "inferred"]
    ts, r = zoo.any_input(rng, contemporaneous=True, kinds=kinds)
    if not common.discrete_ok(ts) or ts.num_nodes > 60:
        ts, r = zoo.sim(rng, n=int(rng.integers(2, 9)))
    if i % 3 == 0:
        ts, r = zoo.handmade_tree(rng, max_muts=40)
    elif i % 3 == 1:
        ts, r = zoo.sim(rng, n=int(rng.integers(2, 7)), mut_per_edge=float(rng.choice([0.3, 1.0, 3.0])))
    Ne = r.get("Ne", 100.0)
    mu = common.default_mu(ts, r)
    eps = float(rng.choice([0.0, 1e-8, 1e-6, 1e-3, 0.05 * Ne]))
    kw = dict(mutation_rate=mu, eps=eps)
    mode = int(rng.integers(3))
    grid = None
    if mode == 0:
        kw["population_size"] = Ne
    else:
        grid = int(rng.integers(3, 30)) if mode == 1 else np.concatenate(
            [[0.0], np.sort(np.unique(10 ** rng.uniform(-1.5, 1.0, size=int(rng.integers(2, 20))))) * 2 * Ne])
    distr = str(rng.choice(["lognorm", "gamma"]))
    if method == "inside_outside" and rng.random() < 0.3:
        kw["outside_standardize"] = False

    def run(space):
        k = dict(kw)
        k["probability_space"] = space
        if grid is not None:
            k["priors"] = tsdate.build_prior_grid(ts, population_size=Ne, timepoints=grid, prior_distribution=distr)
        return pairs.run(ts, method, k, want_lik=True)

    a = run("linear")
    rec.sig = zoo.ts_sig(ts, method, repr(eps), mode, distr, kw.get("outside_standardize"))
    if i < 3:
        rec.sample = dict(recipe=r, method=method, eps=eps, prior_mode=mode, distr=distr)
    if a.exc is not None:
        rec.count("linear_no_return")
        rec.count("no_return:" + common.exc_key(a.exc)[:60])
        return
    ok, why = lin_in_domain(a.fit, method)
    if not ok:
        rec.count("skipped_linear_out_of_domain")
        rec.count("skipped:" + why)
        return
    b = run("logarithmic")
    if b.exc is not None:
        rec.violation(f"{method}:log-run-raised", f"linear run fine, logarithmic raised {common.exc_key(b.exc)}")
        return
    # underflow = a value that is non-zero in the model (finite in log space) but is 0 or
    # subnormal/near-subnormal in the linear run
    for name in ("inside", "outside"):
        ga, gb = getattr(a.fit, name, None), getattr(b.fit, name, None)
        if ga is None or gb is None:
            continue
        la_, lb_ = np.asarray(ga.grid_data, dtype=float), np.asarray(gb.grid_data, dtype=float)
        if gb.probability_space != "logarithmic" or ga.probability_space != "linear":
            continue
        if np.any(np.isfinite(lb_) & (la_ < 1e-250)):
            rec.count("skipped_linear_underflow")
            rec.count(f"skipped_linear_underflow:{name}")
            return
    rec.nontrivial = True
    rec.count(f"pairs:{method}")
    muts = np.zeros(ts.num_edges)
    for m in ts.mutations():
        if m.edge >= 0:
            muts[m.edge] += 1
    if np.any(muts == 0):
        rec.count("pairs_with_zero_mutation_edge")
    if np.any(muts >= 20):
        rec.count("pairs_with_20plus_mutation_edge")
    devs = {"node_time": common.rel_err(a.times, b.times), "node_mn": common.rel_err(a.node_mn, b.node_mn)}
    if method == "inside_outside":
        devs["node_vr"] = common.rel_err(a.node_vr, b.node_vr)
        pa = np.asarray(a.fit.posterior_grid.grid_data)
        pb = np.asarray(b.fit.posterior_grid.grid_data)
        devs["posterior_rows_abs"] = float(np.max(np.abs(pa - pb))) if pa.size else 0.0
    la, lb = float(a.lik), float(b.lik)
    if la > 0:
        devs["likelihood"] = abs(np.log(la) - lb) / max(1.0, abs(lb))
    for k, v in devs.items():
        rec.maxi(f"dev:{method}:{k}", v)
    worst = max(devs.values())
    if not (worst <= 1e-8):
        which = max(devs, key=devs.get)
        rec.violation(f"{method}:spaces-disagree", f"{which} differs by {worst:.3g} between linear and logarithmic space", dev=worst)


def reach(ctx, agg):
    need = {"pairs:inside_outside": 15, "pairs:maximization": 15, "pairs_with_zero_mutation_edge": 1,
            "pairs_with_20plus_mutation_edge": 1}
    return [f"{k} = {agg.cnt.get(k, 0)} < {v}" for k, v in need.items() if agg.cnt.get(k, 0) < v]
