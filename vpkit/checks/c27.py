"""C27 - constraint enforcement is minimal and idempotent.

Reference-model monitor on util.constrain_ages called directly with arbitrary unconstrained
time vectors over DAGs taken from real tree sequences.
"""
import numpy as np

import tsdate
from vpkit import common, zoo

ID = "C27"
N = {"quick": 240, "thorough": 20000}
BUDGET = {"quick": 240.0, "thorough": 700.0}
RULE = ("case = (DAG of a zoo tree sequence, incl. multi-tree, polytomies, internal/historical samples, "
        "6 unconstrained time vectors: noisy, shuffled, constant, reversed, already feasible, huge scale; "
        "epsilon 1e-12..1e3; iterations 0/1/7/100); distinct by (topology hash, vector kind, eps, "
        "iterations); non-trivial = the forced pass had to move at least one node")


def minimal(ts, x, eps):
    out = np.array(x, dtype=float)
    order = np.argsort(ts.nodes_time, kind="stable")
    kids = {}
    for p, c in zip(ts.edges_parent, ts.edges_child):
        kids.setdefault(int(p), set()).add(int(c))
    for u in order:
        u = int(u)
        for c in kids.get(u, ()):
            need = max(out[c] + eps, np.nextafter(out[c], np.inf))
            if need > out[u]:
                out[u] = need
    return out


def feasible(ts, t, eps):
    tp, tc = t[ts.edges_parent], t[ts.edges_child]
    return bool(np.all(tp > tc) and np.all(tp >= tc + eps))


def date_level(ctx, i, rec, rng):
    """the same statement at the API: with the least-squares phase off, date() must return
    exactly max(unconstrained mean, child + min_branch_length)"""
    kind = ["historical", "internal_sample", "sim", "historical"][(i // 4) % 4]
    ts, r = zoo.any_input(rng, kinds=[kind])
    mbl = float(rng.choice([1e-8, 1e-3, 1.0, 100.0]))
    scale = float(rng.choice([0.1, 1.0, 10.0]))
    kw = dict(mutation_rate=common.default_mu(ts, r) / scale, min_branch_length=mbl, return_fit=True,
              rescaling_intervals=int(rng.choice([0, 5])), max_iterations=int(rng.choice([1, 5, 25])))
    explicit = common.contemporaneous(ts) is False or rng.random() < 0.5
    if explicit:
        kw["constr_iterations"] = 0
    res, exc = common.call(tsdate.variational_gamma, ts, **kw)
    rec.sig = zoo.ts_sig(ts, "date-level", mbl, explicit)
    if exc is not None:
        rec.count("date_level_no_return")
        return
    out, fit = res
    mean = fit.node_posteriors()["mean"]
    want = minimal(ts, mean, mbl)
    rec.count("date_level_runs")
    rec.count("date_level_runs:explicit_zero" if explicit else "date_level_runs:default")
    if not common.contemporaneous(ts):
        rec.count("date_level_runs_with_historical_samples")
    if np.any(want != mean):
        rec.count("date_level_runs_where_constraint_binds")
        rec.nontrivial = True
    if not np.array_equal(out.nodes_time, want):
        j = int(np.flatnonzero(out.nodes_time != want)[0])
        rec.violation("date-output-not-minimal",
                      f"constr_iterations={'0' if explicit else 'default(0)'}: node {j} output {out.nodes_time[j]!r}, unconstrained mean {mean[j]!r}, "
                      f"minimal constrained value {want[j]!r}", node=j)


def case(ctx, i, rec):
    rng = ctx.rng(i)
    if i % 4 == 3:
        return date_level(ctx, i, rec, rng)
    ts, r = zoo.any_input(rng, allow_inferred=(i % 5 == 0))
    fixed = common.is_sample(ts)
    true_t = ts.nodes_time
    scale = float(np.max(true_t)) or 1.0
    kinds = {}
    kinds["noisy"] = true_t * np.exp(rng.normal(0, 0.7, size=ts.num_nodes))
    kinds["shuffled"] = rng.permutation(true_t)
    kinds["constant"] = np.full(ts.num_nodes, scale * 0.3)
    kinds["reversed"] = scale - true_t + 1e-3 * scale
    kinds["feasible"] = true_t * 3.0 + 1.0
    kinds["huge"] = true_t * np.exp(rng.normal(0, 0.3, size=ts.num_nodes)) * 1e14
    if i < 3:
        rec.sample = dict(recipe=r, nodes=ts.num_nodes, edges=ts.num_edges, vectors=list(kinds))
    for name, x in kinds.items():
        x = np.array(x, dtype=float)
        x[fixed] = true_t[fixed] * (1e14 if name == "huge" else 1.0) if name != "feasible" else true_t[fixed] * 3.0 + (1.0 if False else 0.0)
        if name == "feasible":
            x = true_t * 3.0
            x[~fixed] += 1.0
        # domain: fixed-fixed edges must be ordered in x
        ff = fixed[ts.edges_parent] & fixed[ts.edges_child]
        if np.any(x[ts.edges_parent][ff] <= x[ts.edges_child][ff]):
            rec.count("skipped_fixed_fixed_unordered")
            continue
        eps = float(rng.choice([1e-12, 1e-8, 1e-8, 1e-3, 1.0, 1e3]))
        if name == "feasible":
            eps = min(eps, 0.5)
        iters = int(rng.choice([0, 0, 1, 7, 100]))
        try:
            out = tsdate.util.constrain_ages(ts, x, eps, iters)
        except Exception as e:
            rec.violation("constrain_ages-raised:" + common.exc_key(e)[:50], f"{name}, eps {eps}, iters {iters}: {e!r}")
            continue
        rec.subcase(zoo.ts_sig(ts, name, eps, iters), nontrivial=bool(np.any(out != x)))
        rec.count(f"calls:iters={iters}")
        rec.count(f"calls:{name}")
        if not feasible(ts, out, eps):
            rec.violation("output-infeasible", f"{name}, eps {eps}, iters {iters}: some branch shorter than epsilon or not positive")
        if iters == 0:
            want = minimal(ts, x, eps)
            if not np.array_equal(out, want):
                j = int(np.flatnonzero(out != want)[0])
                rec.violation("not-minimal", f"{name}, eps {eps}: node {j} got {out[j]!r}, minimal is {want[j]!r} (unconstrained {x[j]!r})", node=j)
            rec.count("minimality_judged")
        if feasible(ts, x, eps) and np.all(x[ts.edges_parent] - x[ts.edges_child] > eps):
            rec.count("strictly_feasible_inputs")
            if not np.array_equal(out, x):
                j = int(np.flatnonzero(out != x)[0])
                rec.violation("feasible-input-changed", f"{name}, eps {eps}, iters {iters}: node {j} {x[j]!r} -> {out[j]!r}")
        try:
            again = tsdate.util.constrain_ages(ts, out, eps, iters)
            if not np.array_equal(again, out):
                j = int(np.flatnonzero(again != out)[0])
                rec.violation("not-idempotent", f"{name}, eps {eps}, iters {iters}: second application moved node {j} {out[j]!r} -> {again[j]!r}")
            rec.count("idempotence_judged")
        except Exception as e:
            rec.violation("second-application-raised", f"{e!r}")
        if np.any(out != x):
            rec.count("cases_where_nodes_moved")
            rec.nontrivial = True
        if np.any(out[fixed] != x[fixed]):
            rec.count("cases_where_fixed_nodes_moved")
    rec.sig = zoo.ts_sig(ts)


def reach(ctx, agg):
    need = {"minimality_judged": 250, "date_level_runs": 50, "date_level_runs_with_historical_samples": 20, "date_level_runs_where_constraint_binds": 10, "idempotence_judged": 800, "strictly_feasible_inputs": 100,
            "cases_where_nodes_moved": 400, "calls:iters=100": 50}
    return [f"{k} = {agg.cnt.get(k, 0)} < {v}" for k, v in need.items() if agg.cnt.get(k, 0) < v]
