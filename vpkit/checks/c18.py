"""C18 - EP moment updates respect support and match the true tilted moments.

(a) online harvest: a child process under the interpreter engine runs real EP and records the
arguments and results of every approx.*_moments call (kernel-internal there);
(b) the compiled functions are called on harvested arguments and on random arguments drawn
inside the harvested ranges, and judged against independent numerical integration of the
tilted densities (vpkit.ep_oracle) and against closed forms.
"""
import json
import os
import subprocess
import sys

import numpy as np

from tsdate import approx
from vpkit import common, ep_oracle as orc
from vpkit.children.c18_harvest import NAMES

ID = "C18"
N = {"quick": 112, "thorough": 2800}
BUDGET = {"quick": 240.0, "thorough": 700.0}
RULE = ("case = a block of events for one of the 14 moment functions: harvested (args of real EP runs "
        "incl. historical / internal samples and unphased blocks below fixed parents), random inside "
        "the harvested per-argument ranges, and random in ranges widened x10 (support/finiteness "
        "only); distinct = (function, arguments); non-trivial = result was not an explicit skip")

H = {}


def setup(ctx):
    path = os.path.join(ctx.scratch, "c18_harvest.json")
    nruns = 72 if ctx.tier == "quick" else 360
    env = dict(os.environ)
    env.pop("NUMBA_BOUNDSCHECK", None)
    env["NUMBA_DISABLE_JIT"] = "1"
    p = subprocess.run([sys.executable, "-m", "vpkit.children.c18_harvest", path, str(ctx.seed), str(nruns)],
                       env=env, capture_output=True, text=True, timeout=1500)
    with open(path) as f:
        d = json.load(f)
    H.update(d)


def in_range_random(rng, name, widen=1.0):
    """a harvested event with every argument moved by an independent log-uniform factor (half a decade,
    or one and a half when widened): stays in the unit system of the run it came from, which mixing
    the per-argument ranges of runs posed in different time units would not"""
    evs = H["store"][name]
    A = np.array([e[0] for e in evs], dtype=float)
    base = A[int(rng.integers(len(A)))]
    w = 0.5 if widen == 1.0 else 1.5
    out = []
    for j in range(A.shape[1]):
        col = A[:, j]
        v = float(base[j])
        if v > 0:
            v = v * float(10 ** rng.uniform(-w, w))
            if np.all(col == np.round(col)) and name.find("edge") < 0 and name.find("block") < 0:
                # mutation counts: whole numbers, and never below the smallest count EP produced for this
                # function (the branch of a mutation being placed carries at least that mutation)
                v = max(float(np.round(v)), float(col.min()))
        if np.any(col == 0) and rng.random() < 0.2:
            v = 0.0
        out.append(v)
    return out


def finite_pos(*xs):
    return all(np.isfinite(x) and x > 0 for x in xs)


def judge(rec, name, args, out, source):
    """returns True if judged against the oracle"""
    try:
        return _judge(rec, name, args, out, source)
    except (ZeroDivisionError, OverflowError, ValueError, ArithmeticError) as e:
        # mpmath gave up (overflow in the integrand, division by an underflowed normaliser)
        rec.count("oracle_not_converged")
        rec.count("oracle_raised:" + type(e).__name__)
        return False


def improper(name, args):
    """some cavity among the arguments is not a gamma distribution (shape or rate not positive)"""
    if name in ("moments", "unphased_moments", "mutation_moments", "mutation_unphased_moments"):
        cav = [(args[0], args[1]), (args[2], args[3])]
    elif name in ("mutation_edge_moments", "mutation_block_moments"):
        cav = []
    elif name in ("twin_moments", "mutation_twin_moments"):
        cav = [(args[0], args[1])]
    else:
        cav = [(args[1], args[2])]
    return any(not (a_ > 0 and b_ > 0) for a_, b_ in cav)


def _judge(rec, name, args, out, source):
    v = rec.violation
    tag = f"{name}{tuple(float(f'{a:.6g}') for a in args)}"
    if all(np.isnan(o) for o in out):
        rec.count(f"explicit_skip:{name}")
        return False
    # means are judged on what real EP runs produced (the statement's domain); random
    # recombinations of the harvested ranges are judged for support and finiteness only
    judge_means = source == "harvested"
    # "any VALID gamma cavity": a cavity with rate 0 (flat, before the node has received any
    # message) or non-positive shape is not a gamma distribution
    if improper(name, args):
        rec.count(f"improper_cavity_not_judged:{name}")
        judge_means = False
    # the EP update (the *_projection wrapper) skips whenever a returned mean or variance is
    # non-finite or non-positive: at the level of the update that is an explicit skip
    if name.startswith("mutation_") and name.split("_")[1] in ("unphased", "twin", "sideways", "block"):
        mv = out[1:]
    elif name.startswith("mutation_"):
        mv = out
    else:
        mv = out[1:]
    pr_bad = name in ("mutation_unphased_moments", "mutation_twin_moments", "mutation_sideways_moments",
                      "mutation_block_moments") and not (0 <= out[0] <= 1)
    if not finite_pos(*mv) or pr_bad:
        # exactly the validity test of the *_projection wrappers: the update is skipped
        rec.count(f"invalid_moments(skipped_by_the_update):{name}")
        rec.count(f"invalid_moments:{source}")
        return False
    rel = lambda got, ref: abs(got - ref) / abs(ref) if ref != 0 else abs(got)  # noqa

    def mean_check(label, got, ref):
        e = rel(got, ref)
        rec.maxi(f"mean_relerr:{source}:{name}", e)
        # "a few percent" on what EP really produced; random recombinations of harvested
        # argument ranges are not guaranteed to be EP-reachable and get twice the margin
        if judge_means and not (e <= 0.05):
            v(f"{name}:mean-off", f"{tag}: {label} = {got!r}, numerical integration gives {ref!r} (rel {e:.3g}) [{source}]")

    if name == "moments":
        logl, mi, vi, mj, vj = out
        if not finite_pos(mi, vi, mj, vj) or not (mi > mj):
            v(f"{name}:support", f"{tag}: returned means ({mi!r},{mj!r}) variances ({vi!r},{vj!r}) [{source}]")
            return True
        ref = orc.pair_moments(*args)
        if ref is None:
            rec.count("oracle_not_converged")
            return False
        mean_check("E[t_i]", mi, ref[0])
        mean_check("E[t_j]", mj, ref[2])
    elif name == "unphased_moments":
        logl, mi, vi, mj, vj = out
        if not finite_pos(mi, vi, mj, vj):
            v(f"{name}:support", f"{tag}: {out} [{source}]")
            return True
        ref = orc.unphased_pair_moments(*args)
        if ref is None:
            rec.count("oracle_not_converged")
            return False
        # E[t_i] is returned as (a_i + a_j + y) / t - z E[t_j]: when t_i is the much smaller of the two
        # ages an error of a few percent in the second term is amplified by the cancellation
        t_ = args[5] + args[1]
        z_ = (args[5] + args[3]) / t_ if t_ > 0 else float("nan")
        ei = rel(mi, ref["Ei"])
        if judge_means and ei > 0.05 and rel(mj, ref["Ej"]) <= 0.05 and abs(mi - ref["Ei"]) <= 0.05 * z_ * ref["Ej"]:
            rec.maxi(f"mean_relerr:{source}:{name}:E[t_i]-by-cancellation", ei)
            v(f"{name}:mean-off:Eti-small-difference-of-two-terms-each-within-5-percent",
              f"{tag}: E[t_i] = {mi!r}, numerical integration gives {ref['Ei']!r} (rel {ei:.3g}); E[t_j] is within "
              f"{rel(mj, ref['Ej']):.3g}; E[t_i] = {(args[0] + args[2] + args[4]) / t_:.6g} - {z_:.4g} E[t_j] [{source}]")
        else:
            mean_check("E[t_i]", mi, ref["Ei"])
        mean_check("E[t_j]", mj, ref["Ej"])
    elif name == "rootward_moments":
        t_j = args[0]
        logl, mi, vi = out
        if not finite_pos(mi, vi) or not (mi > t_j):
            v(f"{name}:support", f"{tag}: mean {mi!r} variance {vi!r}, child fixed at {t_j!r} [{source}]")
            return True
        if t_j == 0.0:
            s, r = args[1] + args[3], args[4] + args[2]
            if rel(mi, s / r) > 1e-12 or rel(vi, s / r ** 2) > 1e-12:
                v(f"{name}:closed-form", f"{tag}: child at zero must give gamma({s},{r}) moments, got {mi!r},{vi!r}")
            rec.count("closed_form:rootward_child_at_zero")
            return True
        ref = orc.rootward(*args)
        if ref is None:
            rec.count("oracle_not_converged")
            return False
        mean_check("E[t_i]", mi, ref[0])
    elif name == "leafward_moments":
        t_i = args[0]
        logl, mj, vj = out
        if not finite_pos(mj, vj) or not (mj < t_i):
            v(f"{name}:support", f"{tag}: mean {mj!r} variance {vj!r}, parent fixed at {t_i!r} [{source}]")
            return True
        ref = orc.leafward(*args)
        if ref is None:
            rec.count("oracle_not_converged")
            return False
        mean_check("E[t_j]", mj, ref[0])
    elif name == "sideways_moments":
        logl, mj, vj = out
        if not finite_pos(mj, vj):
            v(f"{name}:support", f"{tag}: {out} [{source}]")
            return True
        ref = orc.sideways(*args)
        if ref is None:
            rec.count("oracle_not_converged")
            return False
        mean_check("E[t_j]", mj, ref[0])
    elif name == "twin_moments":
        a_i, b_i, y, mu = args
        logl, mi, vi = out
        s, r = a_i + y, b_i + 2 * mu
        if rel(mi, s / r) > 1e-12 or rel(vi, s / r ** 2) > 1e-12:
            v(f"{name}:closed-form", f"{tag}: got {mi!r},{vi!r}, exact {s / r!r},{s / r ** 2!r}")
        rec.count("closed_form:twin")
    elif name == "mutation_moments":
        mm, vm = out
        nd = approx.moments(*args)
        if not finite_pos(mm, vm):
            v(f"{name}:support", f"{tag}: {out} [{source}]")
            return True
        if finite_pos(nd[1], nd[3]) and not (nd[3] * (1 - 1e-9) <= mm <= nd[1] * (1 + 1e-9)):
            v(f"{name}:support", f"{tag}: mutation mean {mm!r} not between node means {nd[3]!r} and {nd[1]!r} [{source}]")
        ref = orc.pair_moments(*args)
        if ref is None:
            rec.count("oracle_not_converged")
            return False
        mean_check("E[t_m]", mm, (ref[0] + ref[2]) / 2)
    elif name == "mutation_rootward_moments":
        mm, vm = out
        t_j = args[0]
        if not finite_pos(mm, vm) or not (mm > t_j):
            v(f"{name}:support", f"{tag}: {out} [{source}]")
            return True
        if t_j == 0.0:
            s, r = args[1] + args[3], args[4] + args[2]
            if rel(mm, s / r / 2) > 1e-12:
                v(f"{name}:closed-form", f"{tag}: got {mm!r}, exact {s / r / 2!r}")
            rec.count("closed_form:mutation_rootward_child_at_zero")
            return True
        ref = orc.rootward(*args)
        if ref is None:
            rec.count("oracle_not_converged")
            return False
        mean_check("E[t_m]", mm, (ref[0] + t_j) / 2)
    elif name == "mutation_leafward_moments":
        mm, vm = out
        t_i = args[0]
        if not finite_pos(mm, vm) or not (mm < t_i):
            v(f"{name}:support", f"{tag}: {out} [{source}]")
            return True
        ref = orc.leafward(*args)
        if ref is None:
            rec.count("oracle_not_converged")
            return False
        mean_check("E[t_m]", mm, (ref[0] + t_i) / 2)
    elif name == "mutation_unphased_moments":
        pr, mm, vm = out
        if not finite_pos(mm, vm) or not (0 <= pr <= 1):
            v(f"{name}:support", f"{tag}: phase {pr!r} mean {mm!r} variance {vm!r} [{source}]")
            return True
        ref = orc.unphased_pair_moments(*args)
        if ref is None:
            rec.count("oracle_not_converged")
            return False
        mean_check("E[t_m]", mm, ref["Em"])
        if judge_means and abs(pr - ref["pr_i"]) > 0.05:
            v(f"{name}:phase-off", f"{tag}: phase probability {pr!r}, numerical integration {ref['pr_i']!r} [{source}]")
    elif name == "mutation_sideways_moments":
        pr, mm, vm = out
        if not finite_pos(mm, vm) or not (0 <= pr <= 1):
            v(f"{name}:support", f"{tag}: phase {pr!r} mean {mm!r} variance {vm!r} [{source}]")
            return True
        ref = orc.sideways(*args)
        if ref is None:
            rec.count("oracle_not_converged")
            return False
        mean_check("E[t_m]", mm, ref[3])
        if judge_means and abs(pr - ref[2]) > 0.05:
            v(f"{name}:phase-off", f"{tag}: phase probability {pr!r}, numerical integration {ref[2]!r} [{source}]")
    elif name == "mutation_twin_moments":
        a_i, b_i, y, mu = args
        pr, mm, vm = out
        s, r = a_i + y, b_i + 2 * mu
        if pr != 0.5 or rel(mm, s / r / 2) > 1e-12 or rel(vm, (s + 1) * s / 3 / r ** 2 - (s / r / 2) ** 2) > 1e-9:
            v(f"{name}:closed-form", f"{tag}: got {out}")
        rec.count("closed_form:mutation_twin")
    elif name == "mutation_edge_moments":
        t_i, t_j = args
        mm, vm = out
        if rel(mm, (t_i + t_j) / 2) > 1e-12 or rel(vm, (t_i - t_j) ** 2 / 12) > 1e-12:
            v(f"{name}:closed-form", f"{tag}: got {out}")
        rec.count("closed_form:mutation_edge")
    elif name == "mutation_block_moments":
        t_i, t_j = args
        pr, mm, vm = out
        p = t_i / (t_i + t_j)
        em = p * t_i / 2 + (1 - p) * t_j / 2
        e2 = p * t_i ** 2 / 3 + (1 - p) * t_j ** 2 / 3
        if rel(pr, p) > 1e-12 or rel(mm, em) > 1e-12 or rel(vm, e2 - em ** 2) > 1e-9:
            v(f"{name}:closed-form", f"{tag}: got {out}, exact {(p, em, e2 - em ** 2)}")
        rec.count("closed_form:mutation_block")
    return True


def case(ctx, i, rec):
    rng = ctx.rng(i)
    name = NAMES[i % len(NAMES)]
    fn = getattr(approx, name)
    evs = H["store"].get(name, [])
    rec.sig = f"{name}:block{i // len(NAMES)}"
    if not evs:
        rec.count(f"no_harvest:{name}")
        return
    nh = 6 if name in ("moments", "unphased_moments", "mutation_moments", "mutation_unphased_moments") else 8
    nsp = int(H.get("n_special", {}).get(name, 0))
    idx = list(rng.choice(np.arange(nsp, len(evs)), size=min(nh, len(evs) - nsp), replace=False)) if len(evs) > nsp else []
    if nsp:
        # events whose hypergeometric argument sits next to its boundary (seen in real first iterations)
        idx += list(rng.choice(nsp, size=min(3, nsp), replace=False))
        rec.count(f"near_boundary_events:{name}", min(3, nsp))
    block = [("harvested", evs[int(j)][0], evs[int(j)][1]) for j in idx]
    if name in ("unphased_moments", "mutation_unphased_moments"):
        # the block likelihood is symmetric in its two parents and which of them is called i
        # depends only on which leaf edge ends first: the mirrored event is as reachable
        for src, a_, _o in list(block):
            block.append(("harvested", [a_[2], a_[3], a_[0], a_[1], a_[4], a_[5]], None))
            rec.count(f"mirrored_events:{name}")
    for _ in range(3):
        block.append(("random", in_range_random(rng, name), None))
    for _ in range(2):
        block.append(("widened", in_range_random(rng, name, widen=10.0), None))
    for source, args, hres in block:
        # ordering constraints of fixed ages
        if name in ("mutation_edge_moments",) and not (args[0] > args[1]):
            args = [max(args), min(args)]
            if args[0] == args[1]:
                continue
        try:
            out = tuple(float(x) for x in fn(*args))
        except Exception as e:
            if source != "harvested" and improper(name, args):
                # a random recombination with a flat (rate 0) cavity is not a valid gamma cavity
                rec.count(f"raised_on_improper_random_cavity:{name}")
                continue
            rec.violation(f"{name}:raised", f"{name}{tuple(args)} raised {e!r} [{source}]")
            continue
        rec.count(f"events:{name}")
        rec.count(f"events:{source}")
        if source == "harvested" and hres is None:
            rec.count(f"harvested:{name}")
        elif source == "harvested":
            rec.count(f"harvested:{name}")
            # cross-check of the two engines (not the property): divergences are counted
            if hres is not None:
                d = max((abs(a - b) / max(abs(a), abs(b), 1e-300)) for a, b in zip(out, hres)
                        if not (np.isnan(a) and np.isnan(b)))  if any(not (np.isnan(a) and np.isnan(b)) for a, b in zip(out, hres)) else 0.0
                rec.maxi("compiled_vs_interpreted_in_run_reldiff", d if np.isfinite(d) else 1e300)
                if not (d <= 1e-6):
                    rec.count("engine_divergence_events(>1e-6)")
        if judge(rec, name, list(args), out, source):
            rec.nontrivial = True
            rec.subcase(f"{name}:{args}")
    if i < 3:
        rec.sample = dict(function=name, example_args=block[0][1], example_result=list(block[0][2] or []))


def post(ctx, agg):
    agg.extra["harvest_calls_seen_per_function"] = H.get("seen", {})
    agg.extra["harvest_runs"] = H.get("runs", 0)
    agg.extra["harvest_near_boundary_events"] = H.get("near_boundary_events", {})


def reach(ctx, agg):
    out = []
    for n in NAMES:
        if agg.cnt.get(f"events:{n}", 0) < 40:
            out.append(f"events:{n} = {agg.cnt.get(f'events:{n}', 0)} < 40")
        if agg.cnt.get(f"harvested:{n}", 0) < 10:
            out.append(f"harvested:{n} = {agg.cnt.get(f'harvested:{n}', 0)} < 10")
    return out
