"""C37 - standalone tree-sequence rescaling works.

Postcondition monitor on every return of rescaling.rescale_tree_sequence().
"""
import numpy as np
import tskit

from tsdate import rescaling
from vpkit import common, zoo

ID = "C37"
N = {"quick": 150, "thorough": 4000}
BUDGET = {"quick": 240.0, "thorough": 700.0}
RULE = ("case = (contemporaneous simulated / inferred / hand-made input incl. polytomies and mutations "
        "above roots; num_intervals 1/2/10/100, num_iterations 1/3/10, match_segregating_sites); "
        "distinct by (topology hash, options); non-trivial = returned result with >=3 non-sample nodes")


def case(ctx, i, rec):
    rng = ctx.rng(i)
    k = i % 5
    if k == 0:
        ts, r = zoo.handmade_tree(rng)
        # give the hand-made tree calibrated-looking times
        ts = zoo.rescale_time(ts, float(10 ** rng.uniform(0, 3)))
    elif k == 1:
        try:
            ts, r = zoo.inferred(rng)
        except Exception:
            ts, r = zoo.sim(rng)
    elif k == 2:
        ts, r = zoo.sim(rng)
        ts, _ = zoo.add_root_mutations(zoo.strip_mutation_times(ts), rng, k=3)
    else:
        ts, r = zoo.sim(rng, n=int(rng.integers(3, 14)))
    if not common.contemporaneous(ts) or ts.num_mutations == 0:
        rec.count("skipped")
        return
    mu = common.default_mu(ts, r)
    kw = dict(num_intervals=int(rng.choice([1, 2, 10, 100])), num_iterations=int(rng.choice([1, 3, 10])),
              match_segregating_sites=bool(rng.random() < 0.5))
    rec.sig = zoo.ts_sig(ts, tuple(sorted(kw.items())))
    if i < 3:
        rec.sample = dict(recipe=r, kw=kw)
    # hook on the name rescale_tree_sequence looks up: ages before positive branch lengths are enforced
    seen = []
    orig_constrain = getattr(rescaling, "constrain_ages", None)
    if orig_constrain is not None:
        def spy(ts_, nodes_time, *a, **k):
            before = np.array(nodes_time, copy=True)
            res = orig_constrain(ts_, nodes_time, *a, **k)
            seen.append((before, np.array(res, copy=True)))
            return res
        rescaling.constrain_ages = spy
    try:
        out = rescaling.rescale_tree_sequence(ts, mu, **kw)
    except Exception as e:
        if "fewer rescaling intervals" in str(e):
            rec.count("no_return:use-fewer-intervals")
            rec.violation("raised:use-fewer-rescaling-intervals",
                          f"valid contemporaneous input raised {type(e).__name__} 'Use fewer rescaling intervals' with {kw}")
        else:
            rec.violation("raised:" + common.exc_key(e)[:70], f"valid contemporaneous input raised {common.exc_key(e)}")
        return
    finally:
        if orig_constrain is not None:
            rescaling.constrain_ages = orig_constrain
    rec.count("returned")
    rec.count(f"returned:intervals={kw['num_intervals']}")
    issample = common.is_sample(ts)
    if int(np.sum(~issample)) >= 3:
        rec.nontrivial = True
    v = rec.violation
    try:
        out.dump_tables().tree_sequence()
    except Exception as e:
        v("output-not-valid", f"{e}")
        return
    A, B = ts.dump_tables(), out.dump_tables()
    ea = sorted(zip(A.edges.left, A.edges.right, A.edges.parent, A.edges.child))
    eb = sorted(zip(B.edges.left, B.edges.right, B.edges.parent, B.edges.child))
    if ea != eb:
        v("edges-changed", "set of edges differs")
    if not A.sites.equals(B.sites):
        v("sites-changed", "sites table differs")
    # rows within a site may be re-sorted by tables.sort() once times are known: compare as multisets
    if sorted(zip(A.mutations.site.tolist(), A.mutations.node.tolist())) != sorted(zip(B.mutations.site.tolist(), B.mutations.node.tolist())):
        v("mutation-site-or-node-changed", "the multiset of (site, node) of the mutations differs")
    tin, tout = ts.nodes_time, out.nodes_time
    if np.any(tout[issample] != tin[issample]):
        v("sample-time-changed", "a sample's time changed")
    # the map is judged on the ages the rescaling itself produced; the enforcement of positive
    # branch lengths afterwards may only nudge them (by the minimum branch length per level)
    tmap = tout
    if len(seen) == 1:
        pre, post_ = seen[0]
        rec.count("returns_with_constrain_hook_observed")
        if not np.array_equal(post_, tout):
            v("output-times-not-the-constrained-times", "nodes_time of the output differ from what constrain_ages returned")
        nudge = float(np.max(np.abs(post_ - pre))) if len(pre) else 0.0
        rec.maxi("max_nudge_by_constrain_ages", nudge)
        if nudge > 0:
            rec.count("returns_where_constrain_ages_changed_a_time")
        if nudge > 1e-8 * ts.num_nodes + 1e-12 * float(np.max(np.abs(pre), initial=0.0)):
            v("constrain-nudge-too-large", f"enforcing positive branches moved a node by {nudge!r}")
        tmap = pre
    elif len(seen) > 1:
        v("constrain-called-more-than-once", f"{len(seen)} calls")
    o = np.argsort(tin[~issample], kind="stable")
    xs, ys = tin[~issample][o], tmap[~issample][o]
    if np.any(np.diff(ys) < -1e-9 * np.abs(ys[1:])):
        j = int(np.flatnonzero(np.diff(ys) < -1e-9 * np.abs(ys[1:]))[0])
        v("time-map-not-monotone", f"input times {xs[j]!r} < {xs[j + 1]!r} mapped to {ys[j]!r} > {ys[j + 1]!r}")
    same_in = np.diff(xs) == 0
    if np.any(same_in & (np.abs(np.diff(ys)) > 1e-9 * np.abs(ys[1:]))):
        v("equal-input-times-mapped-differently", "two nodes with the same input time got different output times")
    mt = out.mutations_time
    for m in out.mutations():
        if m.edge == tskit.NULL:
            want = tout[m.node]
        else:
            want = (tout[out.edges_parent[m.edge]] + tout[m.node]) / 2
        if not (abs(mt[m.id] - want) <= 1e-12 * max(abs(want), 1e-300)):
            v("mutation-time-not-midpoint", f"mutation {m.id}: time {mt[m.id]!r}, expected {want!r} ({'above root' if m.edge == tskit.NULL else 'midpoint'})")
            break
    rec.count("mutations_checked", out.num_mutations)
    if np.any(np.array([m.edge for m in ts.mutations()]) == tskit.NULL):
        rec.count("returned_with_root_mutations")


def reach(ctx, agg):
    need = {"returned": 80, "returned_with_root_mutations": 5, "returned:intervals=1": 10, "returned:intervals=100": 5}
    return [f"{k} = {agg.cnt.get(k, 0)} < {v}" for k, v in need.items() if agg.cnt.get(k, 0) < v]
