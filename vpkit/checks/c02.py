"""C02 - dating changes only times, time metadata and (unphased) singleton placement.

Monitor: postcondition on every return of date(): column-by-column diff of the input and
output table collections.
"""
import collections

import msprime
import numpy as np
import tskit

from vpkit import common, zoo

ID = "C02"
N = {"quick": 240, "thorough": 8000}
BUDGET = {"quick": 240.0, "thorough": 700.0}
RULE = ("case = (decorated zoo input with metadata/individuals/populations/(migrations), method, "
        "set_metadata, phasing); distinct by (topology hash, decoration, method, options); "
        "non-trivial = date() returned and all tables were diffed")


def sim_with_migrations(rng):
    demog = msprime.Demography.island_model([100.0, 100.0], migration_rate=0.05)
    n = int(rng.integers(2, 5))
    ts = msprime.sim_ancestry({0: n, 1: n}, demography=demog, sequence_length=1000,
                              recombination_rate=1e-4, record_migrations=True, ploidy=1,
                              random_seed=int(rng.integers(1, 2**31)))
    ts = msprime.sim_mutations(ts, rate=1e-3, random_seed=int(rng.integers(1, 2**31)))
    return ts, dict(gen="sim_migrations", n=2 * n, mu=1e-3, migrations=ts.num_migrations)


def decoded_rows(table):
    """list of decoded metadata (dict/bytes) per row, or raw bytes when no schema"""
    out = []
    sch = table.metadata_schema
    for j in range(table.num_rows):
        raw = table[j].metadata
        out.append(raw)
    return out


def strip_mnvr(md):
    if isinstance(md, dict):
        return {k: v for k, v in md.items() if k not in ("mn", "vr")}
    return md


def metadata_compatible(table):
    """can the existing schema encode existing rows + mn/vr? (or: no schema and no bytes)"""
    sch = table.metadata_schema
    if sch.schema is None:
        return len(table.metadata) == 0
    try:
        for j in range(table.num_rows):
            md = table[j].metadata if len(table.metadata) > 0 else {}
            md = dict(md)
            md.update(mn=1.0, vr=1.0)
            sch.validate_and_encode_row(md)
        return True
    except Exception:
        return False


def diff(rec, tin, tout, unphased, set_metadata, method):
    A, B = tin.dump_tables(), tout.dump_tables()
    v = rec.violation
    if A.sequence_length != B.sequence_length:
        v("sequence_length", "sequence length changed")
    # nodes
    if A.nodes.num_rows != B.nodes.num_rows:
        v("nodes:num_rows", f"{A.nodes.num_rows} -> {B.nodes.num_rows}")
        return
    for col in ("flags", "population", "individual"):
        if not np.array_equal(getattr(A.nodes, col), getattr(B.nodes, col)):
            v(f"nodes:{col}", f"node {col} column changed")
    # edges as multiset
    def edge_ms(T):
        md = tskit.unpack_bytes(T.edges.metadata, T.edges.metadata_offset) if T.edges.num_rows else []
        return collections.Counter(zip(T.edges.left.tolist(), T.edges.right.tolist(),
                                       T.edges.parent.tolist(), T.edges.child.tolist(),
                                       [bytes(m) for m in md]))
    if edge_ms(A) != edge_ms(B):
        v("edges:multiset", "set of edges (left,right,parent,child,metadata) changed")
    if A.edges.metadata_schema != B.edges.metadata_schema:
        v("edges:schema", "edge metadata schema changed")
    if not A.sites.equals(B.sites):
        v("sites", "sites table changed")
    for name in ("populations", "individuals", "migrations"):
        if not getattr(A, name).equals(getattr(B, name)):
            v(f"{name}", f"{name} table changed")
    if A.metadata_schema != B.metadata_schema or A.metadata != B.metadata:
        v("toplevel-metadata", "top-level metadata or schema changed")
    if A.has_reference_sequence() != B.has_reference_sequence():
        v("reference-sequence", "reference sequence changed")
    # mutations
    if A.mutations.num_rows != B.mutations.num_rows:
        v("mutations:num_rows", f"{A.mutations.num_rows} -> {B.mutations.num_rows}")
        return
    nm = A.mutations.num_rows
    written = {"nodes": method != "maximization", "mutations": method == "variational_gamma"}
    for name in ("nodes", "mutations"):
        ta = getattr(A, name)
        if set_metadata is False:
            written[name] = False
        elif set_metadata is None and not metadata_compatible(ta):
            written[name] = False
    cleared = {name: written[name] and set_metadata is True and not metadata_compatible(getattr(A, name))
               for name in ("nodes", "mutations")}

    def row_other(t, j, name):
        """what must survive in row j's metadata: decoded fields other than mn/vr when
        metadata is (re)written under the existing schema, else the raw bytes"""
        if cleared[name]:
            return None
        if written[name]:
            md = t[j].metadata if len(t.metadata) else {}
            return repr(sorted(strip_mnvr(md).items())) if isinstance(md, dict) else repr(md)
        return bytes(t.metadata[t.metadata_offset[j]:t.metadata_offset[j + 1]])

    def ind_or_node(ts_, u):
        ind = ts_.nodes_individual[u]
        return ("ind", int(ind)) if (unphased and ind != tskit.NULL) else ("node", int(u))

    try:
        ka = [(int(A.mutations.site[j]), bytes(A.mutations[j].derived_state.encode()),
               ind_or_node(tin, A.mutations.node[j]), row_other(A.mutations, j, "mutations")) for j in range(nm)]
        kb = [(int(B.mutations.site[j]), bytes(B.mutations[j].derived_state.encode()),
               ind_or_node(tin, B.mutations.node[j]), row_other(B.mutations, j, "mutations")) for j in range(nm)]
    except Exception as e:
        v("mutations:metadata-undecodable", f"cannot decode mutation metadata after dating: {e}")
        return
    if ka != kb:
        if collections.Counter(ka) == collections.Counter(kb):
            j = next(j for j in range(nm) if ka[j] != kb[j])
            v("mutations:rows-permuted-within-site",
              f"mutation rows reordered by the final tables.sort(): id {j} was {ka[j][:3]} is now {kb[j][:3]}")
            rec.count("mutation_rows_permuted_cases")
        else:
            for col, idx in (("site", 0), ("derived_state", 1), ("node", 2), ("metadata-other-fields", 3)):
                ca = collections.Counter(tuple(x for q, x in enumerate(k) if q != idx) for k in ka)
                cb = collections.Counter(tuple(x for q, x in enumerate(k) if q != idx) for k in kb)
                if ca == cb:
                    v(f"mutations:{col}", f"mutation {col} changed (not explained by a row permutation)")
                    break
            else:
                v("mutations:rows", "mutation rows changed in several columns")
    if unphased:
        ch = int(np.sum(A.mutations.node != B.mutations.node))
        rec.count("mutation_nodes_changed_unphased", ch)
    rec.count("mutation_rows_checked", nm)
    # genotypes are what the mutation table means; must be identical when phased
    if not unphased and tin.num_sites and tin.num_samples:
        try:
            for va, vb in zip(tin.variants(), tout.variants()):
                ga = [va.alleles[g] if g >= 0 else None for g in va.genotypes]
                gb = [vb.alleles[g] if g >= 0 else None for g in vb.genotypes]
                if ga != gb:
                    v("genotypes", f"allelic states of the samples changed at site {va.site.id}: {ga} -> {gb}")
                    break
            rec.count("genotype_matrices_compared")
        except Exception:
            rec.count("genotype_matrix_unavailable")
    for name in ("nodes", "mutations"):
        ta, tb = getattr(A, name), getattr(B, name)
        if cleared[name]:
            rec.count(f"{name}:metadata_clear_allowed")
        elif not written[name] and ta.metadata_schema != tb.metadata_schema:
            v(f"{name}:schema-touched", f"{name} metadata schema changed although nothing is to be written")
    ta, tb = A.nodes, B.nodes
    if not cleared["nodes"]:
        try:
            ra = [row_other(ta, j, "nodes") for j in range(ta.num_rows)]
            rb = [row_other(tb, j, "nodes") for j in range(tb.num_rows)]
        except Exception as e:
            v("nodes:metadata-undecodable", f"cannot decode node metadata after dating: {e}")
            return
        if ra != rb:
            j = next(j for j in range(len(ra)) if ra[j] != rb[j])
            v("nodes:metadata-other-fields" if written["nodes"] else "nodes:metadata-touched",
              f"node {j}: {ra[j]!r} -> {rb[j]!r}")
        rec.count("nodes:metadata_rows_checked", len(ra))
    rec.count("written:nodes" if written["nodes"] else "untouched:nodes")
    rec.count("written:mutations" if written["mutations"] else "untouched:mutations")


def case(ctx, i, rec):
    rng = ctx.rng(i)
    if i % 16 == 1:
        ts, r = sim_with_migrations(rng)
    elif i % 16 == 2:
        ts, r = zoo.sim(rng, ploidy=2, n=int(rng.integers(2, 7)))
        ts, _ = zoo.add_recurrent_mutations(ts, rng, k=4)
        r["gen"] = "recurrent_diploid"
    else:
        ts, r = zoo.any_input(rng)
    keep_ind = ts.num_individuals > 0 and rng.random() < 0.6
    edge_md = rng.random() < 0.5
    ts, info = zoo.decorate(ts, rng, individuals="keep" if keep_ind else None, edge_md=edge_md)
    method = str(rng.choice(common.METHODS))
    if method != "variational_gamma" and (not common.discrete_ok(ts) or edge_md or ts.num_migrations):
        method = "variational_gamma"
    set_md = [None, None, False, True][int(rng.integers(4))]
    kw = {"mutation_rate": common.default_mu(ts, r), "set_metadata": set_md}
    unphased = False
    if method == "variational_gamma":
        kw.update(common.vg_kwargs(rng))
        if ts.num_individuals > 0 and common.can_unphase(ts) and rng.random() < 0.6:
            kw["singletons_phased"] = False
            unphased = True
    else:
        kw["population_size"] = r.get("Ne", 100.0)
    res, exc = common.date(ts, method, **kw)
    rec.sig = zoo.ts_sig(ts, method, info["node_md"], info["mut_md"], info["individuals"], set_md, unphased)
    if i < 4:
        rec.sample = dict(recipe=r, decoration=info, method=method,
                          kw={k: repr(v) for k, v in kw.items()})
    if exc is not None:
        rec.count("no_return")
        rec.count("no_return:" + common.exc_key(exc)[:70])
        return
    rec.nontrivial = True
    rec.count("returned")
    rec.count(f"returned:{method}")
    if ts.num_populations:
        rec.count("with_populations")
    if ts.num_individuals:
        rec.count("with_individuals")
    if ts.num_migrations:
        rec.count("with_migrations")
    if ts.num_sites and np.max(np.bincount(ts.mutations_site)) > 1:
        rec.count("several_mutations_per_site")
    if not np.array_equal(ts.edges_parent, res.edges_parent):
        rec.count("edge_order_changed")
    diff(rec, ts, res, unphased, set_md, method)


def reach(ctx, agg):
    need = {"returned": 100, "with_populations": 50, "with_individuals": 20,
            "several_mutations_per_site": 5, "edge_order_changed": 1,
            "returned:inside_outside": 5, "returned:maximization": 5}
    return [f"{k} = {agg.cnt.get(k, 0)} < {v}" for k, v in need.items() if agg.cnt.get(k, 0) < v]
