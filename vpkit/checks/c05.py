"""C05 - variational posteriors are proper, precision-capped gamma distributions.

Monitors: (a) postcondition on every return of variational_gamma(return_fit=True);
(b) invariant at a hook: wrapper on ExpectationPropagation.iterate judges node_posterior
after *every* EP iteration of every real run.
"""
import numpy as np
import tskit

import tsdate
from vpkit import common, zoo

ID = "C05"
N = {"quick": 400, "thorough": 12000}
BUDGET = {"quick": 240.0, "thorough": 700.0}
RULE = ("case = (zoo input incl. hostile mutation loads, max_shape, max_iterations, rescaling, "
        "phasing); distinct by (topology hash, option tuple); non-trivial = fit returned and all "
        "node, mutation and phase values judged (plus every intermediate iteration)")

_state = {}
_orig_iterate = tsdate.variational.ExpectationPropagation.iterate


def _iterate(self, *a, **k):
    r = _orig_iterate(self, *a, **k)
    st = _state.setdefault("it", {"n": 0, "bad": None, "maxshape_ratio": 0.0})
    st["n"] += 1
    ms = k.get("max_shape", 1000)
    free = self.node_constraints[:, 0] != self.node_constraints[:, 1]
    al, be = self.node_posterior[free, 0], self.node_posterior[free, 1]
    if al.size:
        ok = np.isfinite(al) & np.isfinite(be) & (al > -1) & (be > 0)
        shape = al + 1
        if not np.all(ok) and st["bad"] is None:
            j = int(np.flatnonzero(~ok)[0])
            st["bad"] = ("iter-improper-posterior", f"iteration {st['n']}: free node #{j} natural params ({al[j]!r},{be[j]!r})")
        elif np.any(shape > ms * (1 + 1e-9)) and st["bad"] is None:
            j = int(np.argmax(shape))
            st["bad"] = ("iter-shape-above-cap", f"iteration {st['n']}: shape {shape[j]!r} > max_shape {ms}")
        if np.all(ok):
            st["maxshape_ratio"] = max(st["maxshape_ratio"], float(np.max(shape) / ms))
    return r


tsdate.variational.ExpectationPropagation.iterate = _iterate


def hostile(rng):
    """few nodes, extreme mutation loads"""
    shape = str(rng.choice(["star", "binary", "caterpillar", "polytomy"]))
    n = int(rng.integers(2, 8))
    ts, r = zoo.handmade_tree(rng, n_leaves=n, shape=shape, muts={})
    # rebuild with explicit loads: all zero except one edge with many
    kids = list(set(ts.edges_child.tolist()))
    loads = {c: 0 for c in kids}
    mode = str(rng.choice(["one_heavy", "all_heavy", "one_light"]))
    if mode == "one_heavy":
        loads[int(rng.choice(kids))] = int(rng.choice([50, 500, 5000]))
    elif mode == "all_heavy":
        for c in kids:
            loads[c] = int(rng.choice([200, 1000]))
    else:
        loads[int(rng.choice(kids))] = 1
    ts, r = zoo.handmade_tree(np.random.default_rng(int(rng.integers(1 << 30))), n_leaves=n, shape=shape, muts=loads)
    r["gen"] = "hostile:" + mode
    return ts, r


def case(ctx, i, rec):
    rng = ctx.rng(i)
    if i % 5 == 0:
        ts, r = hostile(rng)
    elif i % 5 == 2:
        # larger trees: internal nodes whose children are all internal, heavy loads so that
        # a small cap binds on parent and child differently
        ts, r = zoo.sim(rng, n=int(rng.integers(12, 40)), L=1e3, rec=0.0 if rng.random() < 0.5 else None,
                        mut_per_edge=float(rng.choice([5.0, 50.0, 300.0])))
    elif i % 5 == 1:
        ts, r = zoo.sim(rng, ploidy=2, n=int(rng.integers(2, 7)))
    else:
        ts, r = zoo.any_input(rng)
    kw = {"mutation_rate": common.default_mu(ts, r), "return_fit": True}
    kw["max_shape"] = float(rng.choice([1.001, 2.0, 10.0, 1000.0, 1000.0, 1e6]))
    kw["max_iterations"] = int(rng.choice([1, 2, 5, 25, 25, 100]))
    kw["rescaling_intervals"] = [0, 0, 1, 3, 10, None][int(rng.integers(6))]
    if i % 5 == 2:
        kw["max_shape"] = float(rng.choice([2.0, 4.0, 10.0, 25.0, 100.0]))
    if rng.random() < 0.3:
        kw["match_segregating_sites"] = True
    if rng.random() < 0.2:
        kw["regularise_roots"] = False
    unphased = False
    if ts.num_individuals > 0 and common.can_unphase(ts) and rng.random() < 0.7:
        kw["singletons_phased"] = False
        unphased = True
    _state.clear()
    res, exc = common.call(tsdate.variational_gamma, ts, **kw)
    optsig = tuple(sorted((k, repr(v)) for k, v in kw.items() if k != "mutation_rate"))
    rec.sig = zoo.ts_sig(ts, optsig)
    if i < 4:
        rec.sample = dict(recipe=r, kw={k: repr(v) for k, v in kw.items()})
    st = _state.get("it")
    if st:
        rec.count("iteration_end_events", st["n"])
        if st["bad"]:
            rec.violation(st["bad"][0], st["bad"][1])
        if st["maxshape_ratio"] >= 1 - 1e-9:
            rec.count("runs_where_cap_binds_during_ep")
    if exc is not None:
        rec.count("no_return")
        rec.count("no_return:" + common.exc_key(exc)[:70])
        return
    out, fit = res
    rec.nontrivial = True
    rec.count("returned")
    ms = kw["max_shape"]
    post = fit.node_posteriors()
    free = ~common.is_sample(ts)
    mn, vr = post["mean"][free], post["variance"][free]
    if mn.size:
        ok = np.isfinite(mn) & np.isfinite(vr) & (mn > 0) & (vr > 0)
        if not np.all(ok):
            j = int(np.flatnonzero(free)[np.flatnonzero(~ok)[0]])
            rec.violation("node-moments-improper", f"node {j}: mean {post['mean'][j]!r} variance {post['variance'][j]!r}")
        else:
            shape = mn ** 2 / vr
            rec.maxi("max_shape_ratio", float(np.max(shape) / ms))
            if np.any(shape > ms * (1 + 1e-9)):
                j = int(np.flatnonzero(free)[int(np.argmax(shape))])
                rec.violation("node-shape-above-cap", f"node {j}: shape {float(np.max(shape))!r} > max_shape {ms}")
            if np.max(shape) >= ms * (1 - 1e-9):
                rec.count("runs_where_cap_binds_at_end")
        rec.count("nodes_judged", int(mn.size))
    mp = fit.mutation_posteriors()
    mm, mv = mp["mean"], mp["variance"]
    edges = np.array([m.edge for m in ts.mutations()]) if ts.num_mutations else np.array([], dtype=int)
    nan_m, nan_v = np.isnan(mm), np.isnan(mv)
    if np.any(nan_m != nan_v):
        j = int(np.flatnonzero(nan_m != nan_v)[0])
        rec.violation("mutation-half-defined", f"mutation {j}: mean {mm[j]!r} variance {mv[j]!r}")
    fin = ~nan_m & ~nan_v
    bad = fin & ~(np.isfinite(mm) & np.isfinite(mv) & (mm > 0) & (mv > 0))
    if np.any(bad):
        j = int(np.flatnonzero(bad)[0])
        rec.violation("mutation-moments-improper", f"mutation {j}: mean {mm[j]!r} variance {mv[j]!r}")
    root_m = edges == tskit.NULL
    if np.any(root_m & ~nan_m):
        j = int(np.flatnonzero(root_m & ~nan_m)[0])
        rec.violation("root-mutation-has-posterior", f"mutation {j} is above a root but has mean {mm[j]!r}")
    rec.count("mutations_judged", int(mm.size))
    rec.count("mutations_above_root", int(np.sum(root_m)))
    rec.count("mutations_undefined_not_root(skipped updates)", int(np.sum(nan_m & ~root_m)))
    ph = np.asarray(fit.mutation_phase, dtype=float)
    blocks = np.asarray(fit.mutation_blocks)
    unph = blocks != tskit.NULL
    pv = ph[unph]
    badp = ~np.isnan(pv) & ~((pv >= 0.5) & (pv <= 1.0))
    if np.any(badp):
        j = int(np.flatnonzero(unph)[np.flatnonzero(badp)[0]])
        rec.violation("phase-out-of-range", f"unphased singleton {j}: phase probability {ph[j]!r} not in [0.5, 1]")
    rec.count("unphased_singletons_judged", int(np.sum(unph)))
    rec.count("phase_undefined", int(np.sum(np.isnan(pv))))
    pp = ph[~unph]
    if np.any(~np.isnan(pp) & (pp != 1.0)):
        rec.violation("phased-mutation-phase-not-one", "a phased mutation has a phase probability other than 1 or NaN")


def reach(ctx, agg):
    need = {"returned": 150, "iteration_end_events": 2000, "runs_where_cap_binds_at_end": 1,
            "runs_where_cap_binds_during_ep": 1, "unphased_singletons_judged": 100,
            "mutations_above_root": 1}
    return [f"{k} = {agg.cnt.get(k, 0)} < {v}" for k, v in need.items() if agg.cnt.get(k, 0) < v]
