"""Recording wrappers on the names ExpectationPropagation.rescale() looks up in
tsdate.variational (reallocate_unphased, mutational_timescale, piecewise_scale_*), plus a
wrapper on rescale() itself that snapshots node_posterior before and after."""
import numpy as np

from tsdate import variational

LOG = {"on": False, "events": []}

_orig = {
    "reallocate_unphased": variational.reallocate_unphased,
    "mutational_timescale": variational.mutational_timescale,
    "piecewise_scale_point_estimate": variational.piecewise_scale_point_estimate,
    "piecewise_scale_posterior": variational.piecewise_scale_posterior,
}
_orig_rescale = variational.ExpectationPropagation.rescale


def _cp(x):
    return np.array(x, copy=True) if isinstance(x, np.ndarray) else x


def _wrap(name):
    fn = _orig[name]

    def wrapper(*args):
        if not LOG["on"]:
            return fn(*args)
        before = [_cp(a) for a in args]
        out = fn(*args)
        after = [_cp(a) for a in args]
        res = tuple(_cp(o) for o in out) if isinstance(out, tuple) else _cp(out)
        LOG["events"].append((name, before, after, res))
        return out

    wrapper.__name__ = name
    return wrapper


def _rescale(self, **kw):
    if not LOG["on"]:
        return _orig_rescale(self, **kw)
    LOG["events"].append(("rescale:enter", dict(kw), _cp(self.node_posterior), _cp(self.mutation_posterior)))
    r = _orig_rescale(self, **kw)
    LOG["events"].append(("rescale:exit", dict(kw), _cp(self.node_posterior), _cp(self.mutation_posterior)))
    return r


def install():
    for name in _orig:
        setattr(variational, name, _wrap(name))
    variational.ExpectationPropagation.rescale = _rescale


def start():
    LOG["events"] = []
    LOG["on"] = True


def stop():
    LOG["on"] = False
    ev = LOG["events"]
    LOG["events"] = []
    return ev
