"""
Shared driver: context, forked worker farm, aggregation, verdicts, evidence, replay.

A check module provides
    ID, TITLE, RULE (str), N = {"quick": int, "thorough": int}
    case(ctx, i, rec)          # run case i, record into rec
and optionally
    setup(ctx)                 # in the parent, before forking
    post(ctx, agg)             # in the parent, after the pool (extra phases)
    reach(ctx, agg) -> list[str]   # unmet reach requirements (=> inconclusive)
    BUDGET = {"quick": seconds, "thorough": seconds}
    LEVEL = "exploration" | "fault_enumeration"
    ASSUMPTIONS = [...]
"""
import collections
import fnmatch
import hashlib
import json
import multiprocessing
import os
import shutil
import signal
import sys
import time
import traceback

import numpy as np

ROOT = os.environ.get("VERIF_ROOT", os.path.dirname(os.path.dirname(os.path.realpath(__file__))))
DEFAULT_BUDGET = {"quick": 240.0, "thorough": 1500.0}
NWORKERS = int(os.environ.get("VERIF_WORKERS", "16"))


def _jsonable(o):
    if isinstance(o, (np.integer,)):
        return int(o)
    if isinstance(o, (np.floating,)):
        return float(o)
    if isinstance(o, (np.bool_,)):
        return bool(o)
    if isinstance(o, np.ndarray):
        return o.tolist()
    if isinstance(o, (set, frozenset)):
        return sorted(o)
    if isinstance(o, bytes):
        return o.decode("latin1")
    return repr(o)


def dumps(o, **kw):
    return json.dumps(o, default=_jsonable, **kw)


class Ctx:
    def __init__(self, pid, tier, seed=None, replay_case=None):
        self.pid = pid
        self.propnum = int(pid[1:])
        self.tier = tier
        self.seed = int(os.environ.get("VERIF_SEED", "0")) if seed is None else seed
        self.repo = os.environ.get("VERIF_REPO", "/repo")
        self.root = ROOT
        self.engine = os.environ.get("VERIF_ENGINE", "jit")
        self.t0 = time.time()
        self.scratch = os.path.join(ROOT, ".scratch", f"{pid}-{os.getpid()}")
        os.makedirs(self.scratch, exist_ok=True)
        self.deadline = None
        self.replay_case = replay_case
        self.shared = {}

    def rng(self, i, *extra):
        return np.random.default_rng(
            np.random.SeedSequence([self.seed, self.propnum, int(i), *[int(e) for e in extra]])
        )

    def cleanup(self):
        shutil.rmtree(self.scratch, ignore_errors=True)


class Rec:
    """Per-case recorder (lives in the worker, serialised to the parent)."""

    def __init__(self, i):
        self.i = i
        self.sig = None
        self.nontrivial = False
        self.viol = []
        self.cnt = collections.Counter()
        self.mx = {}
        self.sample = None
        self.err = None
        self.sigs = []  # extra distinct signatures (sub-cases)

    def violation(self, key, msg, **data):
        if len(self.viol) < 20:
            self.viol.append({"key": key, "msg": msg, "data": data})
        self.cnt["violations_recorded"] += 1

    def count(self, name, n=1):
        self.cnt[name] += n

    def maxi(self, name, v):
        try:
            v = float(v)
        except Exception:
            return
        if v != v:
            return
        if name not in self.mx or v > self.mx[name]:
            self.mx[name] = v

    def subcase(self, sig, nontrivial=True):
        """register an additional distinct (sub)case explored inside this case"""
        if nontrivial and len(self.sigs) < 2000:
            self.sigs.append(str(sig))
        self.cnt["subcases"] += 1

    def to_json(self):
        return dumps(
            {"i": self.i, "sig": self.sig, "nt": self.nontrivial, "viol": self.viol,
             "cnt": dict(self.cnt), "mx": self.mx, "sample": self.sample, "err": self.err,
             "sigs": self.sigs}
        )


class Agg:
    def __init__(self):
        self.evaluations = 0
        self.sigs = set()
        self.cnt = collections.Counter()
        self.mx = {}
        self.samples = []
        self.viol = []  # (case index, violation dict)
        self.errors = []
        self.crashed = []
        self.watchdog = []
        self.not_run = 0
        self.extra = {}
        self.notes = []

    def absorb(self, d):
        self.evaluations += 1
        if d.get("nt") and d.get("sig") is not None:
            self.sigs.add(str(d["sig"]))
        for s in d.get("sigs", ()):
            self.sigs.add(s)
        self.cnt.update(d.get("cnt", {}))
        for k, v in d.get("mx", {}).items():
            if k not in self.mx or v > self.mx[k]:
                self.mx[k] = v
        if d.get("sample") is not None and len(self.samples) < 6:
            self.samples.append(d["sample"])
        for v in d.get("viol", ()):
            self.viol.append((d["i"], v))
        if d.get("err"):
            self.errors.append((d["i"], d["err"]))

    def violation(self, key, msg, case=-1, **data):
        self.viol.append((case, {"key": key, "msg": msg, "data": data}))


def _worker(ctx, case_fn, indices, counter, path):
    signal.signal(signal.SIGINT, signal.SIG_DFL)
    with open(path, "w", buffering=1) as out:
        while True:
            with counter.get_lock():
                k = counter.value
                counter.value += 1
            if k >= len(indices) or time.time() > ctx.deadline:
                break
            i = indices[k]
            out.write(f"S {i}\n")
            rec = Rec(i)
            try:
                case_fn(ctx, i, rec)
            except BaseException:  # noqa
                rec.err = traceback.format_exc()[-3000:]
            out.write("R " + rec.to_json() + "\n")
        out.write("E\n")
    os._exit(0)


def run_cases(ctx, case_fn, indices, agg, nworkers=None, budget=None):
    """Fork workers after tsdate is imported; dynamic scheduling; hard watchdog."""
    indices = list(indices)
    nworkers = min(nworkers or NWORKERS, max(1, len(indices)))
    budget = budget or DEFAULT_BUDGET[ctx.tier]
    ctx.deadline = time.time() + budget
    hard = ctx.deadline + max(120.0, 0.5 * budget)
    mp = multiprocessing.get_context("fork")
    counter = mp.Value("l", 0)
    tag = f"{time.time():.0f}-{len(os.listdir(ctx.scratch))}"
    paths = [os.path.join(ctx.scratch, f"w{tag}-{w}.jsonl") for w in range(nworkers)]
    if ctx.replay_case is not None or nworkers == 1 and os.environ.get("VERIF_INPROC"):
        # in-process (replay / debugging)
        for i in indices:
            rec = Rec(i)
            try:
                case_fn(ctx, i, rec)
            except BaseException:  # noqa
                rec.err = traceback.format_exc()[-3000:]
            agg.absorb(json.loads(rec.to_json()))
        return
    sys.stdout.flush()
    procs = []
    for w in range(nworkers):
        p = mp.Process(target=_worker, args=(ctx, case_fn, indices, counter, paths[w]))
        p.daemon = False  # checks may start multiprocessing pools of their own
        p.start()
        procs.append(p)
    for p in procs:
        p.join(max(0.1, hard - time.time()))
    hung = [p for p in procs if p.is_alive()]
    for p in hung:
        p.kill()
        p.join(5)
    done = set()
    for w, path in enumerate(paths):
        started = None
        ended = False
        try:
            with open(path) as f:
                for line in f:
                    if line.startswith("S "):
                        started = int(line[2:])
                    elif line.startswith("R "):
                        try:
                            d = json.loads(line[2:])
                        except Exception:
                            continue
                        agg.absorb(d)
                        done.add(d["i"])
                        started = None
                    elif line.startswith("E"):
                        ended = True
        except FileNotFoundError:
            pass
        if started is not None and not ended:
            if procs[w] in hung:
                agg.watchdog.append(started)
            else:
                agg.crashed.append((started, procs[w].exitcode))
        try:
            os.remove(path)
        except OSError:
            pass
    agg.not_run += len([i for i in indices if i not in done])


# ---------------------------------------------------------------------------------------


def load_known():
    p = os.path.join(ROOT, "known_findings.json")
    try:
        with open(p) as f:
            d = json.load(f)
    except FileNotFoundError:
        return []
    return d.get("findings", [])


def match_known(pid, key, known):
    for k in known:
        if k["property"] == pid and fnmatch.fnmatchcase(key, k["key"]):
            return k
    return None


def source_hash(repo):
    h = hashlib.sha256()
    d = os.path.join(repo, "tsdate")
    for name in sorted(os.listdir(d)):
        if name.endswith(".py"):
            with open(os.path.join(d, name), "rb") as f:
                h.update(name.encode())
                h.update(f.read())
    return h.hexdigest()[:16]


def finish(ctx, mod, agg):
    """Decide, write evidence, print verdict, return exit code."""
    pid = ctx.pid
    known = load_known()
    seen_known = collections.OrderedDict()
    unlisted = collections.OrderedDict()
    for case, v in agg.viol:
        k = match_known(pid, v["key"], known)
        if k is not None:
            seen_known.setdefault(k["key"], (k, case, v))
        else:
            unlisted.setdefault(v["key"], (case, v))
    os.makedirs(os.path.join(ROOT, "replays"), exist_ok=True)
    lines = []
    for key, (case, v) in unlisted.items():
        h = hashlib.sha256(key.encode()).hexdigest()[:10]
        path = os.path.join(ROOT, "replays", f"{pid}-{h}.json")
        with open(path, "w") as f:
            f.write(dumps({"property": pid, "seed": ctx.seed, "tier": ctx.tier, "case": case,
                           "key": key, "violation": v, "engine": ctx.engine,
                           "repo": ctx.repo, "how": f"./chk replay {os.path.relpath(path, ROOT)}"},
                          indent=1))
        lines.append(f"VIOLATION property={pid} replay={os.path.relpath(path, ROOT)}  # {key}: {v['msg'][:300]}")
    for key, (k, case, v) in seen_known.items():
        lines.append(f"KNOWN-FINDING: property={pid} {k.get('what', key)} [key={key}; e.g. case {case}: {v['msg'][:200]}]")
    unmet = []
    if hasattr(mod, "reach") and ctx.replay_case is None:
        try:
            unmet = list(mod.reach(ctx, agg) or [])
        except Exception:
            unmet = ["reach() raised: " + traceback.format_exc()[-500:]]
    inconclusive = []
    if agg.errors:
        inconclusive.append(f"{len(agg.errors)} case(s) ended in a harness error")
    if agg.crashed:
        inconclusive.append(f"worker crashed on case(s) {agg.crashed[:5]}")
    if agg.watchdog:
        inconclusive.append(f"watchdog fired on case(s) {agg.watchdog[:5]}")
    if agg.evaluations == 0:
        inconclusive.append("no case was evaluated")
    inconclusive += [f"reach requirement unmet: {u}" for u in unmet]
    if unlisted:
        verdict, code = "violated", 1
    elif inconclusive:
        verdict, code = "inconclusive", 2
    else:
        verdict, code = "held-on-observed", 0
    wall = time.time() - ctx.t0
    rule = getattr(mod, "RULE", "")
    level = getattr(mod, "LEVEL", "exploration")
    cov = {
        "evaluations": int(agg.evaluations),
        "distinct_nontrivial": int(len(agg.sigs)),
        "rule": rule,
        "samples": agg.samples if agg.samples else [{"note": "no sample recorded"}],
        "counters": dict(sorted(agg.cnt.items())),
        "maxima": dict(sorted(agg.mx.items())),
        "cases_not_run_time_cap": int(agg.not_run),
        "known_findings_observed": list(seen_known.keys()),
        "unlisted_violation_keys": list(unlisted.keys()),
        "inconclusive_reasons": inconclusive,
        "verdict": verdict,
        "engine": ctx.engine,
        "repo": ctx.repo,
        "repo_source_hash": source_hash(ctx.repo),
    }
    cov.update(agg.extra)
    if getattr(mod, "EXHAUSTIVE", None) and agg.extra.get("exhaustive"):
        cov["exhaustive"] = True
    ev = {
        "property_id": pid,
        "tier": ctx.tier,
        "seed": ctx.seed,
        "level": level,
        "coverage": cov,
        "assumptions": list(getattr(mod, "ASSUMPTIONS", [])) + [
            "numpy, scipy, tskit, msprime, tsinfer, mpmath and numba themselves are trusted",
            "held means: no violation on the executions listed here, not a proof",
        ],
        "wall_s": round(wall, 2),
        "violations": len(unlisted),
    }
    if ctx.replay_case is None:
        path = os.path.join(ROOT, "evidence", f"{pid}.json")
        os.makedirs(os.path.dirname(path), exist_ok=True)
        txt = dumps(ev, indent=1)
        try:
            import jsonschema

            with open("/root/.vp/EVIDENCE.schema.json") as f:
                schema = json.load(f)
            jsonschema.validate(json.loads(txt), schema)
        except FileNotFoundError:
            pass
        except Exception as e:  # schema problem: make it visible, never silent
            lines.append(f"EVIDENCE-SCHEMA-PROBLEM {pid}: {str(e)[:300]}")
            if code == 0:
                code = 2
        with open(path + ".tmp", "w") as f:
            f.write(txt)
        os.replace(path + ".tmp", path)
    for ln in lines:
        print(ln)
    for i, e in agg.errors[:3]:
        print(f"HARNESS-ERROR case {i}:\n{e}")
    if verdict == "inconclusive":
        print(f"INCONCLUSIVE property={pid}: " + "; ".join(inconclusive))
    print(
        f"[{pid} {ctx.tier} seed={ctx.seed}] verdict={verdict} evaluations={agg.evaluations} "
        f"distinct_nontrivial={len(agg.sigs)} known={len(seen_known)} unlisted={len(unlisted)} "
        f"not_run={agg.not_run} wall={wall:.1f}s"
    )
    key_counts = {k: v for k, v in sorted(agg.cnt.items())}
    print("  counters:", dumps(key_counts)[:1500])
    if agg.mx:
        print("  maxima:", dumps({k: float(f"{v:.3g}") for k, v in sorted(agg.mx.items())})[:1200])
    return code


def standard_run(ctx, mod):
    agg = Agg()
    if hasattr(mod, "setup"):
        mod.setup(ctx)
    if ctx.replay_case is not None:
        idx = [ctx.replay_case]
    else:
        idx = list(range(int(os.environ.get("VERIF_N", mod.N[ctx.tier]))))
    budget = getattr(mod, "BUDGET", DEFAULT_BUDGET)[ctx.tier]
    if ctx.tier == "quick":
        # the cap is a watchdog, not part of the verdict: quick case counts are sized for ~1-2 min on an
        # idle 16-core machine, and a busy machine must not turn them into "reach unmet"
        budget = max(budget, 720.0)
    if idx and idx[0] >= 0:
        run_cases(ctx, mod.case, idx, agg, budget=budget,
                  nworkers=getattr(mod, "WORKERS", None))
    if hasattr(mod, "post") and (ctx.replay_case is None or ctx.replay_case < 0):
        mod.post(ctx, agg)
    return agg
