#!/bin/bash
# Run registered checks against a seeded change applied in a scratch worktree.
# usage: tools/try_seed.sh seeded/<dir> <tier> C01 C03 ...   -> seeded/<dir>/detect.json
set -u
D=$(realpath "$1"); TIER=$2; shift 2
NAME=$(basename "$D"); WT=/tmp/ts/$NAME
rm -rf "$WT"; mkdir -p /tmp/ts
git -C /repo worktree add -q --detach "$WT" HEAD || exit 2
cp /repo/tsdate/_version.py "$WT/tsdate/"
git -C "$WT" apply "$D/patch.diff" || { echo "patch does not apply"; git -C /repo worktree remove --force "$WT"; exit 2; }
cd /verif
RES="{"
for C in "$@"; do
  cp evidence/$C.json /tmp/ts/$NAME.$C.evidence.bak 2>/dev/null
  OUT=$(VERIF_REPO=$WT ./chk check $C $TIER 2>&1); RC=$?
  cp /tmp/ts/$NAME.$C.evidence.bak evidence/$C.json 2>/dev/null; rm -f /tmp/ts/$NAME.$C.evidence.bak
  KEYS=$(echo "$OUT" | grep '^VIOLATION' | sed 's/.*# //' | cut -c1-160 | /venv/bin/python -c 'import sys,json; print(json.dumps([l.strip() for l in sys.stdin]))')
  RES="$RES\"$C\": {\"tier\": \"$TIER\", \"exit\": $RC, \"violations\": $KEYS},"
  echo "$C exit=$RC $(echo "$OUT" | grep -c '^VIOLATION') violation line(s)"
done
RES="${RES%,}}"
echo "$RES" | /venv/bin/python -c 'import sys,json; d=json.load(sys.stdin); json.dump(d,open(sys.argv[1],"w"),indent=1)' "$D/detect.json"
git -C /repo worktree remove --force "$WT"
rm -rf /verif/.cache/numba/$(ls -t /verif/.cache/numba | head -1) 2>/dev/null
