#!/bin/bash
# usage: tools/sweep.sh <tier> "<seeds>" [check ids...]   - prints one line per (check, seed)
TIER=$1; SEEDS=$2; shift 2
cd "$(dirname "$0")/.."
IDS="$@"; [ -z "$IDS" ] && IDS=$(./chk list | cut -d' ' -f1)
for S in $SEEDS; do for C in $IDS; do
  OUT=$(VERIF_SEED=$S ./chk check $C $TIER 2>&1); RC=$?
  echo "$C seed=$S exit=$RC $(echo "$OUT" | grep -E '^\[C' | cut -c1-160)"
  [ $RC -ne 0 ] && echo "$OUT" | grep -E "^(VIOLATION|INCONCLUSIVE|HARNESS)" | cut -c1-400
done; done
