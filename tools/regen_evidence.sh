#!/bin/bash
# Re-create every evidence/<id>.json with the registered quick command (seed 0), one check at a time.
cd "$(dirname "$0")/.."
IDS="$@"; [ -z "$IDS" ] && IDS=$(./chk list | cut -d' ' -f1)
for C in $IDS; do
  OUT=$(./chk check $C quick 2>&1); RC=$?
  echo "$C exit=$RC $(echo "$OUT" | grep -E '^\[C' | cut -c1-170)"
  [ $RC -ne 0 ] && echo "$OUT" | grep -E "^(VIOLATION|INCONCLUSIVE|HARNESS)" | cut -c1-400
done
