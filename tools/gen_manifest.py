#!/venv/bin/python
"""Regenerate /verif/MANIFEST.json from the registry and the table below."""
import json
import os
import sys

ROOT = os.path.dirname(os.path.dirname(os.path.realpath(__file__)))
sys.path.insert(0, ROOT)
from vpkit.registry import CHECKS  # noqa

T = {
    "C01": ("postcondition monitor on every date() return + recording wrapper on util.constrain_ages",
            "Every date() return over the zoo x methods x options x time scales 1e-6..1e12 is re-validated by tskit and judged edge by edge / mutation by mutation; the constrain_ages return value is judged directly so a rounding failure is seen even when tskit rejects the tables."),
    "C02": ("postcondition monitor: column-by-column diff of input and output tables on every date() return",
            "Decorated inputs (metadata codecs, individuals, populations, migrations, recurrent mutations); everything the statement lists as unchanged is compared, incl. the samples' allelic states."),
    "C03": ("postcondition monitor with a bit-exact oracle for the only sample time the statement allows",
            "Historical and internal samples, with mutation-rate scales that force both pushed and unpushed samples; childless samples must be bit-identical."),
    "C04": ("postcondition monitor comparing written metadata with the returned fit object",
            "All three methods, metadata none/JSON/struct, set_metadata None/True, phased and unphased; row moments of inside_outside recomputed independently."),
    "C05": ("postcondition monitor + invariant at a hook (wrapper on ExpectationPropagation.iterate, judged after every EP iteration)",
            "Hostile mutation loads, max_shape from 1.001 to 1e6, 1..100 iterations, rescaling and phasing variants."),
    "C06": ("two-run relation monitor (time-unit scaling), powers of two to 1e-12 and general factors to 1e-6, with observed-mechanism rule for the near-tie finding",
            "Each case runs a base call, a 2^k-scaled call (k in -40..40) and a general-factor call; all outputs incl. posterior variances compared."),
    "C07": ("two-run relation monitor (genome-coordinate scaling with mutation_rate/c)",
            "Mostly multi-tree inputs; factors 2^-30..2^30 and general; unphased variants; same near-tie rule as C06."),
    "C08": ("two-run relation monitor (perturb data the model must ignore; outputs must be bit-identical)",
            "11 perturbation kinds x 3 methods; posteriors read from the fit so the comparison does not depend on metadata writing."),
    "C09": ("determinism monitors: repeated calls, real fresh processes with different PYTHONHASHSEED, pool runs with injected delays and logged arrival orders, prior-object reuse",
            "Event logs: digests printed by 4 real child processes; arrival orders recorded at Pool.imap_unordered (distinct orders counted)."),
    "C10": ("reference-model monitor: exhaustive enumeration of the discretised model (dense tensor over all assignments) vs inside_outside posterior and likelihood",
            "Quick: sampled shapes/grids; thorough additionally enumerates all shapes with <=4 leaves x all mutation patterns over {0,1,3} (exhaustive for that sub-space)."),
    "C11": ("two-run relation monitor (renumbering and re-timing) with tie analysis under the C13 objective",
            "inside_outside and maximization on contemporaneous inputs incl. multi-tree; random permutations of non-sample ids and order-preserving re-timings."),
    "C12": ("two-run relation monitor (linear vs logarithmic space) with the statement's under/overflow domain guard observed in the fit",
            "Pairs where the linear run underflows (value finite in log space but <1e-250 in linear) are counted and not judged."),
    "C13": ("reference-model monitor: every node's objective recomputed from the statement, chosen index must maximise it",
            "Multi-tree inputs so that nodes have several parent edges; eps from 1e-8 to half the time scale; both spaces."),
    "C14": ("reference-model monitor: exact rational / 40-digit DP over the Kingman jump chain with a marked subset",
            "Quick: every (n,k) with n<=40 (exhaustive for the bound); thorough n<=100 plus sampled n up to 400 and spot values of k for n up to 2000."),
    "C15": ("reference-model monitor: naive per-tree tally of (T,k) spans and span-weighted mixture moments",
            "Simulated, tsinfer-inferred (growing polytomies) and missing-data inputs."),
    "C16": ("reference-model monitor: interval masses recomputed with mpmath from node parameters and an independent integral of 1/(2N)",
            "Integer and explicit grids, both distributions, histories with 1-5 epochs given as number, object or dict."),
    "C17": ("reference-model monitor (30-digit arithmetic) + icontract class invariant on PopulationSizeHistory",
            "Histories with 1-12 epochs and sizes over 15 decades; residuals judged against the magnitude of the summed terms (cancellation-aware)."),
    "C18": ("online harvest of real EP cavity arguments in the interpreter engine (recording wrappers inside the kernels) + independent numerical integration of the tilted densities",
            "All 14 moment functions; harvested events incl. hypergeometric arguments next to their boundary (seen in first EP iterations on inputs with very uneven tree spans) and their parent-swapped mirrors; means judged at 5 % on harvested events, support/finiteness on random ones; closed forms to 1e-12."),
    "C19": ("reference-model monitor: mpmath / scipy quantiles vs the compiled special-function and gamma-fitting helpers",
            "Log-uniform arguments over 16 decades plus every series cut-off +-ulp; KL fits with shapes 1e-9..1e9; quantile fits incl. capped shapes."),
    "C20": ("reference-model monitor: closed-form conjugate posterior for star forests",
            "Balanced, skewed (one edge carrying >90 % of the information) and proportional stars, 1-8 intervals, caps 2..1000; the capped+non-proportional class is a recorded finding and still judged for shape."),
    "C21": ("invariant at a hook: wrapper on ExpectationPropagation.iterate re-adds all messages after every iteration; the compiled _rescale_factors is exercised on the live state",
            "Unphased blocks, historical/internal samples, regularisation on/off, caps 1.5..1e6; residuals judged against the sum of |messages|."),
    "C22": ("postcondition on mutation nodes + two-run relation (random re-phasing of singletons)",
            "Diploid simulations and inferences; both match_segregating_sites settings; individuals that must be rejected or left alone; near-tie rule as C06."),
    "C23": ("invariant at an internal hook: the counts passed to the rescaling step's first mutational_timescale() call vs counts rebuilt from the trees, the fitted phases and the final placement",
            "Singletons exactly on tree breakpoints, switched singletons, both count modes."),
    "C24": ("reference-model monitor: naive per-tree tallies vs count_mutations (plain, weighted, custom sets), mutation_span_array, block_singletons",
            "Mutations above changing roots, in gaps on isolated samples, arbitrary custom node sets, diploid individuals."),
    "C25": ("invariants at internal hooks: every call rescale() makes to mutational_timescale / piecewise_scale_* is recorded and judged; per-interval counts/areas vs a direct O(E*K) overlap computation",
            "max_iterations=1 leaves reversed branches (child mean older than parent) so that the edge filter of mutational_area is exercised."),
    "C26": ("reference-model monitor: exact rational boundaries; unpruned O(n^2) DP and literal enumeration of all segmentations",
            "Thorough enumerates all count vectors of length <=5 over {0,1,2,5} (exhaustive for that sub-space)."),
    "C27": ("reference-model monitor on util.constrain_ages (bit-exact minimal solution, feasibility, idempotence) + the same statement at the date() boundary",
            "DAGs from real tree sequences, six kinds of unconstrained vectors, eps 1e-12..1e3, 0/1/7/100 iterations; date-level part with explicit constr_iterations=0 on historical inputs."),
    "C28": ("postcondition / reference monitor on every preprocess_ts() return",
            "Sites thinned into clusters (flanks and deserts), user intervals, mutations above roots, split on/off, filter flags; clades of every output tree looked up in the input tree."),
    "C29": ("reference-model monitor: node map inferred from every sample's root path at every tree midpoint",
            "Up to 5 disjoint pieces per node, mutations above split roots, on isolated samples and beyond the last edge, four node-metadata codecs; idempotence."),
    "C30": ("reference-model monitor: per-tree scan vs the two detectors and the methods' accept/reject decisions",
            "Kept-unary simplifications, leaf edges cut on the left / middle / right flank of the last tree, unary samples only."),
    "C31": ("reference-model monitor: definition evaluated from mutation.edge and the edge table",
            "Outputs of all three methods and synthetic mn metadata that violates the topology; nested and recurrent mutations, root mutations; hand-built tsinfer SampleData with historical carriers."),
    "C32": ("postcondition monitor with a decision table; logging handler records the warnings",
            "10 metadata kinds incl. schemas whose validity depends on row values, x set_metadata x method, for both tables."),
    "C33": ("event-log monitor over chained histories of calls (the provenance table is the log)",
            "preprocess_ts (all option combinations), split_disjoint_nodes, date and named methods, record_provenance True/False/None, parameter values of several types."),
    "C34": ("event-log monitor: kwargs recorded at the tsdate.date / preprocess_ts boundary for argv vectors from a grammar; output files compared with the API result",
            "Every option incl. zero values, booleans switched off, invalid combinations; thorough adds real `python -m tsdate` subprocesses."),
    "C35": ("postcondition monitor on every call outcome on the bounds-checking build; violations keyed by (exception type, innermost tsdate function, message stem)",
            "11 pathological input structures + the zoo x entry points x parameter sets with one named invalid parameter in a third of the cases."),
    "C36": ("fault enumeration over the writer's recorded syscall trace (strace), live SIGKILL injection, and concurrent real-process schedules with logged interleavings",
            "Every prefix of the writer's openat/write/rename/close sequence and byte offsets inside each write (all offsets in the thorough tier) materialised as directory states and read by the real reader code; strace inject=write:signal=SIGKILL at each write; 2 writers + 1 reader with random start delays, distinct syscall interleavings counted."),
    "C37": ("postcondition monitor on every rescale_tree_sequence() return",
            "Contemporaneous simulated / inferred / hand-made inputs, 1-100 intervals, 1-10 iterations."),
    "C38": ("two-run relation monitor with four related numberings; finding keyed by the observed mechanism (which node carries the last id)",
            "Oldest root last vs elsewhere; numberings that share the last-id node must agree exactly, so a different dependence on numbering is still reported."),
}

NOTE = ("Runtime monitoring of the real code: 'held' means no violation on the executions listed in the evidence file. "
        "Trusted: numpy/scipy/tskit/msprime/tsinfer/mpmath/numba, and the oracle code in vpkit. Engine: numba JIT with "
        "NUMBA_BOUNDSCHECK=1 (memory-safety sanitizer build) unless stated.")


def main():
    path = os.path.join(ROOT, "MANIFEST.json")
    with open(path) as f:
        man = json.load(f)
    with open(os.path.join(ROOT, "properties.jsonl")) as f:
        props = [json.loads(l) for l in f if l.strip()]
    checks = []
    na = []
    for p in props:
        pid = p["id"]
        if pid in CHECKS and pid in T:
            tech, text = T[pid]
            level = "fault_enumeration" if pid == "C36" else "exploration"
            checks.append({
                "property_id": pid,
                "quick_cmd": f"./chk check {pid} quick",
                "thorough_cmd": f"./chk check {pid} thorough",
                "evidence_file": f"/verif/evidence/{pid}.json",
                "replay_cmd_template": "./chk replay {path}",
                "engine": "vpkit",
                "level_claimed": {"category": level, "text": text, "design_ref": f"DESIGN.md section 4, {pid}"},
                "level_note": NOTE + (" This check runs under NUMBA_DISABLE_JIT=1 (pure numpy code)." if CHECKS[pid]["engine"] == "interp" else ""),
                "technique": tech,
            })
        else:
            na.append({"property_id": pid, "reason": "check not built yet in this session (planned: DESIGN.md section 4)"})
    man["checks"] = checks
    man["not_applicable"] = na
    man["engines"] = [
        {"name": "vpkit", "path": "vpkit/", "serves_properties": [c["property_id"] for c in checks],
         "kind_free_text": "runtime monitors: fork farm over generated workloads, recording wrappers on tsdate's Python-level names, reference oracles, two-run relations, event logs; ./chk is the launcher"},
    ]
    man["notes"] = ("Exit codes: 0 held on everything observed (KNOWN-FINDING lines allowed), 1 VIOLATION, 2 INCONCLUSIVE "
                    "(a deciding monitor was not reached / watchdog). known_findings.json lists recorded defects and fixes.")
    with open(path, "w") as f:
        json.dump(man, f, indent=1)
    import jsonschema

    with open("/root/.vp/MANIFEST.schema.json") as f:
        jsonschema.validate(man, json.load(f))
    print(f"{len(checks)} checks, {len(na)} not claimed")


if __name__ == "__main__":
    main()
