#!/venv/bin/python
"""(Re)write seeded/<name>/meta.json from the hand-written NEEDS table plus confirm.json / detect.json."""
import json, os, glob
ROOT = os.path.dirname(os.path.dirname(os.path.realpath(__file__)))
NEEDS = {
 "C01-skip-fixed-fixed-edges": "a sample whose parent is also a sample, with an input age gap <= min_branch_length (large min_branch_length); silent",
 "C02-mutnode-assigned-after-sort": "a site with >=2 mutations on different nodes whose sorted row order differs from the input order, with differing derived states or metadata",
 "C03-sample-mask-equality": "sample nodes carrying an extra flag bit (e.g. tsinfer's historical-sample bit) AND constr_iterations > 0 AND a non-positive adjacent branch",
 "C04-mean-var-vectorised-row-order": "inside_outside on an input whose non-sample node ids are not in age order (subset / hand-built tables)",
 "C05-parent-cap-from-child-posterior": "a max_shape small enough to bind, rescaling off, and a node whose last update of an iteration goes through the both-nodes-free branch",
 "C06-iqr-isclose-absolute-tolerance": "variational_gamma with rescaling and extremely small time units (c <~ 1e-9): posterior variances stop scaling",
 "C07-block-span-unscaled-without-singletons": "singletons_phased=False on diploid individuals with NO singleton mutations at all",
 "C08-count-mutations-position-shortcut": "variational_gamma, >1 tree, recurrent mutations, and exactly as many monomorphic sites added as there are extra mutations",
 "C09-span-cache-on-prior-object": "the same build_prior_grid object passed to >=2 discrete-time calls on a multi-tree input (state carried over between calls)",
 "C10-rootmut-counted-on-last-edge": "at least one mutation directly above the tree's root",
 "C11-prior-params-scatter-instead-of-gather": "non-sample ids renumbered by a permutation with a cycle of length >=3 (a swap is self-inverse and hides it)",
 "C12-log-branch-default-eps": "a non-default eps together with probability_space='logarithmic'",
 "C13-maximization-drops-eps-on-later-parents": "a node with >=2 parent edges (multi-tree) and a non-negligible eps",
 "C14-marginalize-skip-underflowed-term": "an exact prior with n >= 1098 total samples",
 "C15-first-pass-skip-tracked-parent": "a polytomy that grows at a tree breakpoint (node gains a child edge without losing any)",
 "C16-fill-priors-assumes-samples-first": "sample nodes that are not the first num_samples ids",
 "C17-gamma-to-natural-early-exit": ">=2 epochs, first break deep in the gamma's tail (cdf >= 0.99999) and a much larger older epoch",
 "C18-hyp2f1-unity-sign-flip": "2F1 argument within ~1e-5 of 1 from below with g<0 (unphased blocks whose first parent is far better informed than the second, or very flat cavities)",
 "C19-kl-newton-absolute-tolerance": "a KL fit whose solution shape is below ~3e-6",
 "C20-fixed-child-factor-drops-damped-part": "one child edge supplying >= 90 % of its parent's posterior and max_iterations >= 2",
 "C21-rescale-block-scale": "singletons_phased=False, a block whose two edges have different parents, and one of them clamped by max_shape in that iteration",
 "C22-reallocate-wrong-likelihood-array": "singletons_phased=False with match_segregating_sites=True and rescaling on; two inputs differing only in singleton phase",
 "C23-singleton-on-breakpoint-assigned-left": "singletons_phased=False and a singleton whose site position equals a tree breakpoint where one of the carrier's leaf edges changes",
 "C24-stale-node-edge-after-removal": "a mutation above a node that has no parent in the local tree but had one further left (changing root / isolated by missing data)",
 "C25-area-includes-reversed-edges": "an edge whose child point estimate is older than its parent's when rescaling starts (e.g. max_iterations=1)",
 "C26-fixed-changepoints-clip-first-boundary": "a mass vector starting with zero entries",
 "C27-explicit-zero-iterations-treated-as-default": "date(..., constr_iterations=0) given explicitly with non-contemporaneous samples and a negative unconstrained branch",
 "C28-relabel-identity-map-no-parent": "split_disjoint on, a split root node, and a mutation above that root in its second or later segment",
 "C29-relabel-parent-if-unset": "a split non-sample node that is a root in a later piece with a mutation above it there",
 "C30-unary-sweep-stops-at-last-insertion": "the only unary region starts at a breakpoint that only removes edges, to the right of the last edge insertion",
 "C31-sites-time-skips-nested-mutations": "a nested mutation pair at one site, unconstrained=True, and mn metadata ages out of topological order",
 "C32-metadata-validate-first-row-of-layout-only": "a schema whose validity depends on row values, first row of a field layout valid and a later one invalid",
 "C33-preprocess-early-return-no-provenance": "preprocess_ts(split_disjoint=False) with provenance recording on",
 "C34-cli-zero-treated-as-unset": "an explicit 0 for --rescaling-intervals or --max-iterations with variational_gamma",
 "C35-tips-per-tree-off-by-one": "a discrete method on a >=2-tree input whose FIRST tree has a sample count occurring in no later tree (missing data in the first tree only)",
 "C21b-rescale-factors-rebinds-scale": "the underflow guard inside propagate_likelihood firing mid-sweep (node scale < TINY: large inputs / many iterations / extreme rates); iterations may then abort by exception",
 "C33b-provenance-template-shared-parameters": "two recording tsdate calls with different parameter sets in the SAME process (e.g. preprocess_ts then date)",
 "C36-rename-before-flush": "a crash (or concurrent reader) between the rename and the close of the cache file; uninterrupted runs end bit-identical",
 "C37-stale-node-edge-in-count-mutations": "a mutation above a node that is a root/isolated at the mutation's position but was a child in a tree further left",
 "C38-skip-highest-numbered-root": "the node holding the last id is not the root of any single-root tree (e.g. it is a non-root internal node after renumbering)",
 "C05b-iqr-cap-compares-natural-parameter": "rescaling on and a node whose re-fitted shape lands in (max_shape, max_shape+1]: small non-default max_shape",
 "C19b-iqr-early-cap-matches-upper-quantile": "approximate_gamma_iqr with the cheap lower bound of the shape already above max_shape (x2/x1 < (q2/q1)**(1/max_shape))",
 "C20b-rescale-factors-rebinds-scale": "same patch as C21b, asked for under C20: a star wide enough that the parent's message scale underflows within one sweep (>=45 children, max_shape <= 10), max_iterations % 3 == 2",
 "C13b-argmax-over-stale-tail": "several trees; a child whose later-visited parent is assigned an earlier timepoint than its first-visited parent and whose inside value peaks beyond it",
 "C10b-inside-pass-zeroes-first-timepoint": "a user-supplied prior grid with positive mass at the first timepoint for a non-sample node and no mutations below that node",
 "C31b-parent-via-mutation-edge-index": "a mutation above a local root, node_selection parent/arithmetic/geometric, several trees whose roots differ in age",
 "C23b-leading-edge-table-across-blocks": "unphased singletons, rescaling on, several trees where a terminal edge is the second edge of one block and the first edge of a later block",
 "C32b-date-drops-set-metadata": "a call through tsdate.date() with set_metadata True or False (the named functions are unaffected)",
 "C34b-cli-eps-from-min-branch-length": "tsdate date with a discrete method and -e / -b set to different values",
 "C25b-iqr-cap-after-newton-removed": "rescaling on and a node at the shape cap whose re-fitted shape exceeds max_shape (small max_shape or thousands of mutations per node)",
 "C30b-sample-mask-flag-equality": "variational_gamma, allow_unary=False, a locally unary SAMPLE node carrying an extra flag bit and no unary non-sample node",
 "C28b-simplify-filter-flags-swapped": "an interval is actually deleted AND filter_individuals=True with filter_sites left False (or the reverse) AND a mutation-free site / unreferenced individual exists",
 "C09b-imap-unordered-zipped-by-position": "num_threads >= 2, more than 64 distinct (mutations, span) keys, and a later batch of the unordered pool finishing first",
 "C22b-singleton-move-only-when-rescaling": "singletons_phased=False with rescaling switched off (rescaling_intervals=0 or rescaling_iterations=0)",
 "C19c-mom-relative-variance-floor": "approximate_gamma_mom asked for variance/mean^2 < 1e-12 (target shape above 1e12); every other input bit-identical",
 "C26c-minimum-counts-exclusive": "_poisson_changepoints with min_counts > 0 or min_offset > 0 and an optimal segment whose count or offset equals the minimum exactly",
 "C31c-unconstrained-times-assume-samples-first": "sites_time_from_ts(unconstrained=True) on a dated input where a non-sample node has an id below num_samples and its mn differs from its constrained time",
 "C03c-tip-samples-unpinned-in-projection": "a historical tip sample (age > 0, no children) whose parent's unconstrained age is younger, with constr_iterations > 0",
 "C01c-forced-pass-lowers-child-below-sample-parent": "a sample that is the parent of a non-sample node whose age is within min_branch_length of it, grandchildren within 2*min_branch_length (large min_branch_length)",
 "C27c-unmodified-shortcut-returns-input": "constrain_ages with max_iterations > 0 on ages whose violations are ties or near-ties within numpy isclose tolerance (1e-8 + 1e-5*age): the unconstrained input array is returned",
 "C26b-pelt-prune-without-penalty-slack": "_poisson_changepoints with penalty > 0 and >= 3 observations whose optimum passes through a changepoint that was not the running argmin",
 "C27b-forced-pass-skips-sample-sample-edges": "a sample-to-sample edge (internal / ancient sample above a sample) whose child is raised or whose length is below min_branch_length",
 "C29b-isclose-gap-not-split": "genomic coordinates >= ~1e5 and a gap in a node's ancestry narrower than 1e-5 x position",
 "C24b-block-start-carried-across-gap": "an unphased individual whose leaf nodes are isolated over an interior interval (deleted interval / missing data): the next block's span includes the gap",
 "C15b-mixture-cache-key-without-total-tips": "two nodes with byte-identical (samples below, span) records (2-5 of them) living in trees with different numbers of samples",
 "C01b-skip-constrain-when-already-ordered": "posterior means already ordered on every edge AND a branch shorter than min_branch_length (large min_branch_length)",
 "C02b-nan-posterior-rows-lose-metadata": "variational_gamma, a mutation above a root (NaN posterior) that already carries other metadata fields",
 "C06b-eps-added-to-poisson-mean": "maximization with eps rescaled by a large time factor c (eps*c comparable with dt*mu*span)",
 "C12b-log-poisson-inline-zero-times-neg-inf": "maximization, logarithmic space, eps exactly 0 and a non-sample child whose parent edge has no mutations",
 "C16b-timepoints-returned-unsorted": "an explicit timepoints array that is not already increasing (descending / shuffled)",
 "C03b-forced-pass-skips-sample-sample-edges": "same patch as C27b asked for under C03: a direct sample-to-sample edge with a gap <= min_branch_length or a raised child",
 "C08b-contemporaneous-simplify-drops-keep-unary": "edge metadata AND unary nodes kept AND allow_unary=True AND a discrete method (prior built from a differently simplified copy)",
 "C04b-fast-path-json-nan": "variational_gamma, mutation table without prior metadata, a mutation above a root (NaN posterior written as invalid JSON)",
 "C07b-second-pass-unnormalised-span-weights": "allow_unary=True, a unary node with only unary ancestors up to a root that is a coalescent node in another tree, coordinates not in unit scale",
 "C14b-approximate-mode-sticky": "one ConditionalCoalescentTimes object with a lookup table: add(n1, approximate=True) then a default add(n2) for small n2",
 "C17b-epoch-lookup-assumes-sorted-times": "an unsorted time vector on a history with >= 2 epochs",
 "C18b-isclose-child-age-zero": "a free parent above a fixed child whose age is <= 1e-8 but not 0 (the problem posed in very small time units)",
 "C21c-twin-block-factor-drops-damped-part": "singletons_phased=False, a diploid individual whose two nodes share a parent, and a damped twin-block update",
 "C33c-as-dict-drops-single-time-break": "a discrete method with population_size given as a history of exactly two epochs",
 "C35b-repeated-time-breaks-pass-validation": "population_size history with two equal time breaks (must be rejected with a ValueError, gives AssertionError)",
 "C36b-write-oserror-suppressed": "the cache write failing with an OSError (disk full / file size limit) inside the last field of the last row",
 "C37b-root-mutation-keeps-input-node-age": "rescale_tree_sequence on an input with a mutation above a root",
 "C38b-ignore-flag-switches-off-mid-pass": "ignore_oldest_root=True, a child of the last-id node visited after an internal node not attached to it (tied times: order by id)",
 "C11b-mixture-cache-key-sorted-columns": "two nodes whose (samples below, span) records are permutations of each other column-wise, visited in a different order after a re-timing or a tie-breaking renumbering (C15 sees the wrong mixture moments directly)",
 "C13c-handwritten-poisson-zero-log-zero": "eps exactly 0 and a child whose edge to its youngest parent has no mutations (either probability space)",
 "C25c-epoch-merge-absolute-epsilon": "distinct node ages closer than 2.2e-16 in absolute terms (the problem posed in time units of 1e-15)",
 "C09c-prior-not-converted-back-to-linear": "one prior object used first in logarithmic space and then again with probability_space='linear'",
 "C02c-default-schema-rows-rebuilt-from-empty": "a table that already carries tsdate's default schema AND rows with fields other than mn/vr (dated before, annotated afterwards)",
 "C23c-fixed-projection-arguments-swapped": "singletons_phased=False and an unphased individual whose two nodes hang below fixed-age nodes of different ages",
 "C05c-rescale-aliases-mutation-phase": "singletons_phased=False, rescaling on, a singleton placed on the second edge of its block",
 "C22c-singleton-on-block-start-unblocked": "singletons_phased=False and a singleton exactly on the left end of its carrier's block (on a breakpoint)",
}
for d in sorted(glob.glob(os.path.join(ROOT, "seeded", "*"))):
    name = os.path.basename(d)
    if not os.path.isdir(d):
        continue
    meta = {"seed": name, "breaks_property": name.split("-")[0][:3], "source": "fresh sub-agent given only the property text and a scratch git worktree of /repo",
            "needs_to_manifest": NEEDS.get(name, "see notes.md")}
    for fn, key in (("confirm.json", "confirmed_in_fresh_worktree"), ("detect.json", "my_checks_on_patched_tree")):
        p = os.path.join(d, fn)
        if os.path.exists(p):
            try:
                meta[key] = json.load(open(p))
            except Exception as e:
                meta[key] = f"unreadable: {e}"
    meta["what_was_run"] = ["tools/confirm_seed.sh seeded/%s   (fresh worktree of /repo HEAD: demo without patch, demo with patch, full pytest with patch)" % name,
                            "tools/try_seed.sh seeded/%s quick <checks>   (checks run with VERIF_REPO=<scratch worktree with the patch applied>)" % name]
    if os.path.exists(os.path.join(d, "REBASED.txt")):
        meta["rebased"] = open(os.path.join(d, "REBASED.txt")).read().strip()
    json.dump(meta, open(os.path.join(d, "meta.json"), "w"), indent=1)
print("ok")
