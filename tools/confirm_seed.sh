#!/bin/bash
# Confirm a seeded change independently in a fresh scratch worktree of /repo:
#   demo passes without the patch, fails with it, and the repository's suite passes with it.
# usage: tools/confirm_seed.sh seeded/<dir>     (writes seeded/<dir>/confirm.json)
set -u
D=$(realpath "$1"); NAME=$(basename "$D"); WT=/tmp/cf/$NAME
rm -rf "$WT"; mkdir -p /tmp/cf
git -C /repo worktree add -q --detach "$WT" HEAD || exit 2
cp /repo/tsdate/_version.py "$WT/tsdate/"
sed "s#/tmp/wt/[A-Za-z0-9_-]*#$WT#g" "$D/demo.py" > "$WT/demo_cf.py"
cd "$WT"
run_demo() { PYTHONPATH="$WT" timeout 900 /venv/bin/python demo_cf.py > "$WT/demo_$1.log" 2>&1; echo $?; }
R0=$(run_demo without)
git apply "$D/patch.diff"; AP=$?
R1=$(run_demo with)
PYTHONPATH="$WT" timeout 3000 /venv/bin/python -m pytest -q -p no:cacheprovider --timeout=900 > "$WT/pytest.log" 2>&1; RT=$?
SUMMARY=$(tail -1 "$WT/pytest.log")
cat > "$D/confirm.json" <<EOF
{"seed": "$NAME", "repo_head": "$(git -C /repo rev-parse --short HEAD)", "demo_exit_without_patch": $R0, "patch_applied_exit": $AP, "demo_exit_with_patch": $R1, "pytest_exit_with_patch": $RT, "pytest_summary": "$SUMMARY", "demo_with_tail": $(tail -3 "$WT/demo_with.log" | /venv/bin/python -c 'import sys,json; print(json.dumps(sys.stdin.read()[-400:]))')}
EOF
cd /; git -C /repo worktree remove --force "$WT"
cat "$D/confirm.json"
